package sim

import (
	"bufio"
	"encoding/json"
	"fmt"
	"io"
	"log"
	"os"
	"regexp"
	"runtime"
	"runtime/debug"
	"sort"
	"strings"
	"sync"
	"sync/atomic"
	"testing"
	"testing/synctest"
	"time"
)

// Job is one unit of work handed to a worker by the driver.
type Job struct {
	ID    int    `json:"id"`
	Check string `json:"check"`
	Tier  string `json:"tier"`
	// HashOnly: determinism self-test: the scheduled run only, no post-run
	// enumerations (their sampling is bounded by wall-clock time)
	HashOnly bool       `json:"hash_only,omitempty"`
	Seed     uint64     `json:"seed"`
	Tape     []uint32   `json:"tape,omitempty"`
	Replay   bool       `json:"replay,omitempty"` // pure replay: an exhausted tape yields 0
	Trace    bool       `json:"trace,omitempty"`  // return decoded schedule, ops, log
	Variant  string     `json:"variant,omitempty"`
	Fork     []ForkStep `json:"fork,omitempty"`
}

// Result is what a worker reports for one job.
type Result struct {
	ID           int            `json:"id"`
	Check        string         `json:"check"`
	Seed         uint64         `json:"seed"`
	Violation    *Violation     `json:"violation,omitempty"`
	Harness      string         `json:"harness_error,omitempty"`
	BudgetStop   bool           `json:"budget_stop,omitempty"`
	Stats        RunStats       `json:"stats"`
	StateSigs    []uint64       `json:"state_sigs,omitempty"`
	Tape         []uint32       `json:"tape,omitempty"`
	Knobs        *Knobs         `json:"knobs,omitempty"`
	Ops          []string       `json:"ops,omitempty"`
	Sched        []string       `json:"sched,omitempty"`
	LogTail      []string       `json:"log_tail,omitempty"`
	Labels       []string       `json:"labels,omitempty"`
	LogHash      string         `json:"log_hash,omitempty"`
	Sample       any            `json:"sample,omitempty"`
	Extra        map[string]any `json:"extra,omitempty"`
	Fatal        bool           `json:"fatal,omitempty"` // worker must be restarted after this job
	Observations []Violation    `json:"observations,omitempty"`
}

var scratchRoot string

var jobDeadline time.Time

func overTime(res *Result) bool {
	if time.Now().Before(jobDeadline) {
		return false
	}
	if res != nil && res.Stats.Probes != nil {
		res.Stats.Probes["job-time-cap"]++
	}
	return true
}

func TestMain(m *testing.M) {
	log.SetOutput(io.Discard) // bluge logs skipped snapshots; not part of the protocol
	warmGlobals()
	switch os.Getenv("BSIM_MODE") {
	case "prober":
		proberMain()
		return
	}
	os.Exit(m.Run())
}

func scratch() string {
	if scratchRoot == "" {
		base := os.Getenv("BSIM_SCRATCH")
		if base == "" {
			base = "/dev/shm"
		}
		// unique per process AND per start: a worker that was killed leaves
		// its directory behind, and process ids are reused
		scratchRoot = fmt.Sprintf("%s/bsim-%d-%d", base, os.Getpid(), time.Now().UnixNano())
		_ = os.RemoveAll(scratchRoot)
		_ = os.MkdirAll(scratchRoot, 0700)
	}
	return scratchRoot
}

// TestWorker is the simulator's entry point: it reads jobs (one JSON object
// per line) from stdin and answers each with one "@@ {json}" line.
func TestWorker(t *testing.T) {
	if os.Getenv("BSIM_MODE") != "worker" {
		t.Skip("not a worker")
	}
	debug.SetGCPercent(400)
	defer os.RemoveAll(scratch())
	in := bufio.NewReaderSize(os.Stdin, 1<<20)
	out := bufio.NewWriter(os.Stdout)
	var outMu sync.Mutex
	wdOutput = func(res *Result) {
		outMu.Lock()
		b, _ := json.Marshal(res)
		out.WriteString("@@ ")
		out.Write(b)
		out.WriteString("\n")
		out.Flush()
	}
	startWatchdog()
	for {
		line, err := in.ReadBytes('\n')
		if len(line) > 1 {
			var job Job
			if jerr := json.Unmarshal(line, &job); jerr != nil {
				fmt.Fprintf(out, "@@ {\"harness_error\":%q}\n", jerr.Error())
				out.Flush()
			} else {
				res := runJob(t, &job)
				b, _ := json.Marshal(res)
				out.WriteString("@@ ")
				out.Write(b)
				out.WriteString("\n")
				out.Flush()
				if res.Fatal {
					return
				}
			}
		}
		if err != nil {
			return
		}
	}
}

// ---- wall-clock watchdog for livelocks ---------------------------------------
//
// Inside the bubble time is simulated and the scheduler waits for quiescence;
// a goroutine of the system under test that spins without ever blocking keeps
// the bubble from quiescing for ever. Between two gates bluge does
// milliseconds of work, so a window that does not quiesce for 25 s of wall
// clock is examined: if two goroutine dumps 3 s apart show the same goroutine
// of package bluge/index running, that is a busy loop in the code under test
// (verdict); anything else is reported as harness trouble. Either way the
// process cannot continue and exits after answering.

var (
	curRun   atomic.Pointer[Run]
	curJob   atomic.Pointer[Job]
	wdOutput func(res *Result)
)

var goroutineHdr = regexp.MustCompile(`(?m)^goroutine (\d+) \[([a-z ]+)`)

// spinningBlugeGoroutines maps every running / runnable goroutine of the dump
// that has a frame of package bluge/index to those frames' functions,
// innermost first.
func spinningBlugeGoroutines(dump string) map[string][]string {
	rv := map[string][]string{}
	for _, blk := range strings.Split(dump, "\n\n") {
		m := goroutineHdr.FindStringSubmatch(blk)
		if m == nil || (m[2] != "running" && m[2] != "runnable") {
			continue
		}
		for _, l := range strings.Split(blk, "\n") {
			if strings.HasPrefix(l, "github.com/blugelabs/bluge/index.") {
				if i := strings.LastIndex(l, "("); i > 0 {
					l = l[:i]
				}
				rv[m[1]] = append(rv[m[1]], l)
			}
		}
	}
	return rv
}

var anyGoroutineHdr = regexp.MustCompile(`(?m)^goroutine (\d+) \[([^\],]+)`)

// lockWaitersInBluge maps every goroutine of the dump that waits for a
// sync.Mutex / sync.RWMutex taken from bluge code (the first frame outside
// sync, runtime and internal/* is a bluge function) to that function. Inside
// a bubble such a wait is not a durable block: two goroutines of the code
// under test deadlocked on its own locks keep the bubble from ever quiescing.
func lockWaitersInBluge(dump string) map[string]string {
	rv := map[string]string{}
	for _, blk := range strings.Split(dump, "\n\n") {
		m := anyGoroutineHdr.FindStringSubmatch(blk)
		if m == nil || !(strings.Contains(m[2], "Mutex") || strings.Contains(m[2], "semacquire")) {
			continue
		}
		for _, l := range strings.Split(blk, "\n")[1:] {
			if strings.HasPrefix(l, "\t") || strings.HasPrefix(l, "sync.") || strings.HasPrefix(l, "runtime.") || strings.HasPrefix(l, "internal/") || strings.HasPrefix(l, "created by") {
				continue
			}
			if strings.HasPrefix(l, "github.com/blugelabs/bluge/") {
				if i := strings.LastIndex(l, "("); i > 0 {
					l = l[:i]
				}
				rv[m[1]] = l + " [" + m[2] + "]"
			}
			break
		}
	}
	return rv
}

// harnessSearchGoroutine reports whether goroutine g of the dump runs a read
// the harness issued (its stack passes through the harness's read helpers).
func harnessSearchGoroutine(dump, g string) bool {
	for _, blk := range strings.Split(dump, "\n\n") {
		m := goroutineHdr.FindStringSubmatch(blk)
		if m == nil || m[1] != g {
			continue
		}
		for _, f := range []string{"bsim.(*build).", "bsim.ReadAll", "bsim.ReadExt", "bsim.uidsOf", "bsim.scoredOf", "bsim.extSteps"} {
			if strings.Contains(blk, f) {
				return true
			}
		}
	}
	return false
}

func startWatchdog() {
	go func() {
		last, since := heartbeat.Load(), time.Now()
		for {
			time.Sleep(time.Second)
			if curRun.Load() == nil {
				last, since = heartbeat.Load(), time.Now()
				continue
			}
			if hb := heartbeat.Load(); hb != last {
				last, since = hb, time.Now()
				continue
			}
			if time.Since(since) < 25*time.Second {
				continue
			}
			buf := make([]byte, 4<<20)
			d1 := string(buf[:runtime.Stack(buf, true)])
			time.Sleep(3 * time.Second)
			if heartbeat.Load() != last {
				last, since = heartbeat.Load(), time.Now()
				continue
			}
			d2 := string(buf[:runtime.Stack(buf, true)])
			s1, s2 := spinningBlugeGoroutines(d1), spinningBlugeGoroutines(d2)
			_ = preWait.Load() // acquire: the scheduler's writes before it started waiting are visible
			r, job := curRun.Load(), curJob.Load()
			res := &Result{ID: job.ID, Check: job.Check, Seed: job.Seed, Fatal: true}
			var spin []string
			// the same goroutine runs bluge/index code in both dumps: the
			// innermost function its two stacks share holds the loop (the
			// innermost frames themselves differ from dump to dump)
			for g, fs := range s1 {
				in2 := map[string]bool{}
				for _, f := range s2[g] {
					in2[f] = true
				}
				for _, f := range fs {
					if in2[f] {
						spin = append(spin, fmt.Sprintf("goroutine %s in %s", g, f))
						break
					}
				}
			}
			sort.Strings(spin)
			// a search issued by the harness itself (reference builds of the
			// differential check, full reads) is bluge/index code that runs
			// without blocking too; on a loaded machine a geo or numeric range
			// query over a large dictionary has taken more than 28 s. Such a
			// goroutine is given 150 s before it counts as a busy loop.
			if len(spin) > 0 && time.Since(since) < 150*time.Second {
				onlyHarnessSearches := true
				for g := range s1 {
					if len(s2[g]) > 0 && !harnessSearchGoroutine(d2, g) {
						onlyHarnessSearches = false
					}
				}
				if onlyHarnessSearches {
					continue
				}
			}
			var locked []string
			l1, l2 := lockWaitersInBluge(d1), lockWaitersInBluge(d2)
			for g, f := range l1 {
				if l2[g] == f {
					locked = append(locked, fmt.Sprintf("goroutine %s in %s", g, f))
				}
			}
			sort.Strings(locked)
			if len(spin) == 0 && len(locked) > 0 {
				res.Violation = &Violation{Oracle: "lock-deadlock", Msg: fmt.Sprintf("the system did not come to rest for %v of wall clock within one scheduler window (last released: %s) and nothing is running: goroutines of the code under test wait for its own locks: %s", time.Since(since).Round(time.Second), r.lastRel, strings.Join(locked, "; ")), Win: r.s.Win}
			} else if len(spin) > 0 {
				res.Violation = &Violation{Oracle: "livelock", Msg: fmt.Sprintf("the system did not come to rest for %v of wall clock within one scheduler window (last released: %s); running without ever blocking: %s", time.Since(since).Round(time.Second), r.lastRel, strings.Join(spin, "; ")), Win: r.s.Win}
			} else {
				res.Harness = "watchdog: the bubble did not quiesce for 28 s and no goroutine of bluge/index is spinning:\n" + tailStr(d2, 6000)
			}
			res.Knobs = r.k
			res.Tape = r.t.Used()
			res.Ops = r.opsLog
			res.Sched = r.sched
			res.Stats = r.stats
			wdOutput(res)
			os.Exit(3)
		}
	}()
}

// runBubble executes one simulated run in a synctest bubble; the livelock
// watchdog is armed only while a bubble is running (post-run work such as
// crash-image probing happens outside and may take minutes).
func runBubble(t *testing.T, r *Run) {
	heartbeat.Add(1)
	curRun.Store(r)
	defer curRun.Store(nil)
	synctest.Test(t, func(t *testing.T) { r.Execute() })
}

func runJob(t *testing.T, job *Job) (res *Result) {
	res = &Result{ID: job.ID, Check: job.Check, Seed: job.Seed}
	p := profileFor(job.Check, job.Tier, job.Variant)
	if p == nil {
		res.Harness = "unknown check " + job.Check
		return res
	}
	if p.Special != nil {
		return p.Special(t, job, res)
	}
	var tape *Tape
	if job.Tape != nil {
		tape = NewReplayTape(job.Tape)
		if !job.Replay {
			tape.rng = NewRNG(job.Seed)
		}
	} else {
		tape = NewSearchTape(job.Seed)
	}
	tape.trace = job.Trace
	r := newRun(&p.Profile, tape, scratch())
	r.forkPath = job.Fork
	curT = t
	curJob.Store(job)
	// soft wall-clock cap for the enumerations that follow a run (crash
	// images, damage variants, fault placements): they stop early and say so
	// (probe job-time-cap) instead of running into the driver's watchdog
	jobDeadline = time.Now().Add(70 * time.Second)
	if job.Tier == "thorough" {
		jobDeadline = time.Now().Add(8 * time.Minute)
	}
	if job.Replay {
		jobDeadline = time.Now().Add(24 * time.Hour) // a replay must get as far as the recorded run did
	}
	func() {
		defer func() {
			if pv := recover(); pv != nil {
				msg := fmt.Sprint(pv)
				res.Fatal = true
				if r.viol == nil {
					// a panic that escaped the run: either the bubble's
					// deadlock detector (goroutines left blocked) or a
					// panic in the scheduler goroutine itself
					res.Harness = "panic outside a client operation: " + msg + "\n" + string(debug.Stack())
				}
			}
		}()
		runBubble(t, r)
	}()
	runtime.VerifSetSelectKey(0)
	os.VerifHook = nil
	res.Violation = r.viol
	res.Observations = append(res.Observations, r.observations...)
	res.BudgetStop = r.budgetStop
	res.Stats = r.stats
	res.StateSigs = r.stats.StateSigs
	res.Knobs = r.k
	if r.p.PostRun != nil && r.viol == nil && res.Harness == "" && !r.budgetStop && !job.HashOnly {
		r.p.PostRun(r, res)
		res.Stats.Images = r.stats.Images + res.Stats.Images
	}
	if res.Violation != nil || job.Trace {
		res.Tape = tape.Used()
		res.Ops = r.opsLog
		res.Sched = r.sched
		tailN := 60
		if v := os.Getenv("BSIM_LOGTAIL"); v != "" {
			fmt.Sscanf(v, "%d", &tailN) // debugging aid: longer event-log tail in the result
		}
		for _, e := range tailEvents(r.s, tailN) {
			res.LogTail = append(res.LogTail, e.String())
		}
		if job.Trace {
			res.Labels = tape.labels
			if os.Getenv("BSIM_PARKED") != "" {
				res.Extra = map[string]any{"parked": r.parkedLog}
			}
		}
	}
	if r.s != nil {
		res.LogHash = logHash(r.s)
	}
	return res
}

func tailEvents(s *Sim, n int) []Event {
	if s == nil {
		return nil
	}
	l := s.Log
	if len(l) > n {
		l = l[len(l)-n:]
	}
	return l
}
