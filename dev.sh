#!/bin/bash
# developer helper: build the simulator and run jobs given as JSON lines on stdin
export GOFLAGS=-mod=mod GOPROXY=off GOSUMDB=off GOTOOLCHAIN=local
cd /verif/sim && go1.26.8 test -c -tags verif -overlay /verif/build/overlay/overlay.json -o /verif/build/bsim.test . || exit 2
BSIM_MODE=worker /verif/build/bsim.test -test.run TestWorker
