package sim

import "github.com/blugelabs/bluge"

// ReadExt is filled in by the C04 work: extended reads of a reader.
func ReadExt(r *bluge.Reader) map[string]string { return nil }

func diffExt(a, b map[string]string) string { return "" }
