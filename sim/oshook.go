package sim

import (
	"os"
	"strings"
	"sync"
	"syscall"
)

// OSEvent is one file operation seen below FileSystemDirectory.
type OSEvent struct {
	Op   string
	Name string
	Len  int
	Off  int64
	N    int
	Err  bool
	Inj  bool
}

// OSFault says which operation on which file fails.
type OSFault struct {
	Op     string // open write sync close truncate remove
	Suffix string // file name suffix the fault applies to
	After  int    // for writes: fail once this many bytes went through (cumulative per file); Limit semantics
	Errno  syscall.Errno
	Sticky bool // keep failing (disk full) instead of firing once
	fired  int
}

// OSHook records file operations under a path prefix and injects faults.
type OSHook struct {
	mu      sync.Mutex
	prefix  string
	Events  []OSEvent
	faults  []*OSFault
	written map[string]int // bytes written per file name since open
	open    map[*os.File]string
	Opens   int
	Closes  int
	record  bool
}

func NewOSHook(prefix string) *OSHook {
	return &OSHook{prefix: prefix, written: map[string]int{}, open: map[*os.File]string{}, record: true}
}

func (h *OSHook) Install()   { os.VerifHook = h.handle }
func (h *OSHook) Uninstall() { os.VerifHook = nil }

func (h *OSHook) Arm(f *OSFault) {
	h.mu.Lock()
	h.faults = append(h.faults, f)
	h.mu.Unlock()
}

func (h *OSHook) Disarm() {
	h.mu.Lock()
	h.faults = nil
	h.mu.Unlock()
}

func (h *OSHook) Fired() int {
	h.mu.Lock()
	defer h.mu.Unlock()
	n := 0
	for _, f := range h.faults {
		n += f.fired
	}
	return n
}

func (h *OSHook) Reset() {
	h.mu.Lock()
	h.Events = nil
	h.written = map[string]int{}
	h.mu.Unlock()
}

func (h *OSHook) handle(ev *os.VerifEvent) {
	if !strings.HasPrefix(ev.Name, h.prefix) {
		return
	}
	h.mu.Lock()
	defer h.mu.Unlock()
	if !ev.Post {
		for _, f := range h.faults {
			if f.Op != ev.Op && !(f.Op == "write" && ev.Op == "writeat") {
				continue
			}
			if !strings.HasSuffix(ev.Name, f.Suffix) {
				continue
			}
			if !f.Sticky && f.fired > 0 {
				continue
			}
			if ev.Op == "write" || ev.Op == "writeat" {
				done := h.written[ev.Name]
				if done+ev.Len <= f.After {
					continue // this write still fits before the failure point
				}
				ev.Limit = f.After - done
				if ev.Limit < 0 {
					ev.Limit = 0
				}
			}
			ev.Err = f.Errno
			f.fired++
			if ev.Op != "write" && ev.Op != "writeat" && ev.Op != "close" {
				// these operations do not get a post call when injected
				h.Events = append(h.Events, OSEvent{Op: ev.Op, Name: ev.Name, Len: ev.Len, Off: ev.Off, Err: true, Inj: true})
			}
			return
		}
		if ev.Op == "open" && ev.Flag&os.O_TRUNC != 0 {
			h.written[ev.Name] = 0
		}
		return
	}
	e := OSEvent{Op: ev.Op, Name: ev.Name, Len: ev.Len, Off: ev.Off, N: ev.N, Err: ev.Err != nil}
	switch ev.Op {
	case "open":
		if ev.Err == nil {
			h.Opens++
			h.open[ev.File] = ev.Name
			h.written[ev.Name] = 0
		}
	case "write", "writeat":
		h.written[ev.Name] += ev.N
	case "close":
		if _, ok := h.open[ev.File]; ok {
			delete(h.open, ev.File)
			h.Closes++
		}
	case "truncate":
		if ev.Err == nil && ev.Off == 0 {
			h.written[ev.Name] = 0
		}
	}
	if h.record {
		h.Events = append(h.Events, e)
	}
}

// OpenFiles lists the files still open under the prefix.
func (h *OSHook) OpenFiles() []string {
	h.mu.Lock()
	defer h.mu.Unlock()
	var rv []string
	for _, n := range h.open {
		rv = append(rv, n)
	}
	return rv
}
