package sim

import iceV2 "github.com/blugelabs/ice/v2"

// warmGlobals creates process-wide lazily initialised state (ice v2's zstd
// encoder/decoder pools, which hold channels) outside any synctest bubble, so
// that their channels are ordinary channels usable from every bubble.
func warmGlobals() {
	src := []byte("warm up the zstd encoder and decoder outside the bubble")
	c, _ := iceV2.ZSTDCompress(nil, src, iceV2.ZSTDCompressionLevel)
	_, _ = iceV2.ZSTDDecompress(nil, c)
}
