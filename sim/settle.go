package sim

import (
	"testing/synctest"
	"time"

	"github.com/blugelabs/bluge"
)

// settleWriter waits until the background loops of a free-running writer (one
// whose goroutines are not parked at gates: harness-side builds, the writer
// reopened after a run) are idle: every other goroutine of the bubble durably
// blocked, the root persisted, all counters unchanged over several rounds of
// advancing the fake clock. Reads are done only on a settled writer: the
// bundled ice v2 format shares an unsynchronised stored-field buffer between
// a merge and a reader of the same segment (listed known finding), which
// would otherwise show up now and then as "CRC check failed" in a harness
// read that has nothing to do with the property under check.
func settleWriter(w *bluge.Writer) {
	iw := w.VerifIndexWriter()
	inBubble := true
	wait := func() {
		if !inBubble {
			time.Sleep(300 * time.Microsecond)
			return
		}
		defer func() {
			if recover() != nil {
				inBubble = false
			}
		}()
		synctest.Wait()
	}
	last, same := iw.Stats(), 0
	for i := 0; i < 4000 && same < 4; i++ {
		wait()
		heartbeat.Add(1)
		st := iw.Stats()
		// in the bubble "every goroutine blocked and no counter moved while
		// the clock advanced" is idle; in real time also ask for a persisted
		// root, as long as that is in reach
		if st == last && (inBubble || st.CurRootEpoch == st.LastPersistedEpoch || i > 400) {
			same++
		} else {
			same = 0
		}
		last = st
		if inBubble {
			time.Sleep(100 * time.Millisecond) // fake clock: lets nap timers fire
		}
	}
}
