#!/usr/bin/env python3
"""Generate a `go build -overlay` file for the go1.26.8 toolchain.

Two seams are added to the standard library, both inert unless the simulator
switches them on at run time:

  runtime: `select` poll order becomes a pure function of a key the simulator
           sets (runtime.VerifSetSelectKey); key 0 = stock behaviour.
           runtime.VerifGoid() returns the current goroutine id.
           runtime.VerifSetSelectHook installs a function called at the start
           of every multi-case select of a synctest-bubble goroutine.
  os:      OpenFile, (*File).Write/WriteAt/ReadFrom/Sync/Close/Truncate and
           Remove consult os.VerifHook (nil = stock behaviour).
  sync:    (*RWMutex).RLock/RUnlock call sync.VerifRWHook when it is set
           (recursive read locking of the code under test is reported).

The patcher is exact-match: every pattern must occur exactly once in the
installed source, else generation fails (exit 2) instead of guessing.
Usage: gen_overlay.py <goroot> <outdir>
"""
import json, os, sys

def die(msg):
    sys.stderr.write("gen_overlay: " + msg + "\n")
    sys.exit(2)

def patch(src, subs, path):
    for old, new in subs:
        c = src.count(old)
        if c != 1:
            die("%s: pattern %r occurs %d times (want 1)" % (path, old, c))
        src = src.replace(old, new)
    return src

RUNTIME_NEW = '''// Code added by /verif/overlay/gen_overlay.py. Not part of Go.

package runtime

import "internal/runtime/atomic"

var verifSelectKey atomic.Uint64

// VerifSetSelectKey makes the poll order of every later select a pure
// function of (k, number of cases, position). k == 0 restores the stock
// pseudo-random order.
func VerifSetSelectKey(k uint64) { verifSelectKey.Store(k) }

// VerifGoid returns the id of the calling goroutine.
func VerifGoid() uint64 { return getg().goid }

var verifSelectHook func()

// VerifSetSelectHook installs f (nil: none). f is called at the start of
// every select statement with two or more channel cases executed by a
// goroutine of a synctest bubble, before any case is looked at: the
// simulator parks the goroutine there, so that which cases are ready is
// decided while nothing else runs, not by a real-time race.
func VerifSetSelectHook(f func()) { verifSelectHook = f }

func verifSelectGate(ncases int) {
	if h := verifSelectHook; h != nil && ncases > 1 {
		if gp := getg(); gp.bubble != nil && gp.m.curg == gp {
			h()
		}
	}
}

//go:nosplit
func verifSelectOrder(n uint32) uint32 {
	k := verifSelectKey.Load()
	if k == 0 {
		return cheaprandn(n)
	}
	// splitmix64 finaliser over (k, n)
	z := k + uint64(n)*0x9e3779b97f4a7c15
	z = (z ^ (z >> 30)) * 0xbf58476d1ce4e5b9
	z = (z ^ (z >> 27)) * 0x94d049bb133111eb
	z = z ^ (z >> 31)
	return uint32(z % uint64(n))
}
'''

SYNC_NEW = '''// Code added by /verif/overlay/gen_overlay.py. Not part of Go.

package sync

// VerifRWHook, when non-nil, is called at the start of every RLock (op 0)
// and RUnlock (op 1): the simulator keeps, per goroutine, the read locks the
// code under test holds, and reports a goroutine that read-locks an RWMutex
// it already holds for reading (prohibited: a writer arriving in between
// blocks the second RLock for ever).
var VerifRWHook func(rw *RWMutex, op int)
'''

OS_NEW = '''// Code added by /verif/overlay/gen_overlay.py. Not part of Go.

package os

import "io"

// VerifEvent describes one file operation to VerifHook.
// The hook is called twice per operation: Post == false before it runs (the
// hook may set Err to make the operation fail instead; for writes Limit is
// the number of leading bytes that are still really written before failing),
// and Post == true afterwards with the outcome in N and Err.
type VerifEvent struct {
	Op    string // open write writeat sync close truncate remove
	Name  string
	File  *File
	Flag  int
	Len   int
	Off   int64
	Post  bool
	Limit int
	N     int
	Err   error
}

// VerifHook, when non-nil, observes (and may fail) file operations.
var VerifHook func(ev *VerifEvent)

func OpenFile(name string, flag int, perm FileMode) (*File, error) {
	h := VerifHook
	if h == nil {
		return verifOrigOpenFile(name, flag, perm)
	}
	ev := &VerifEvent{Op: "open", Name: name, Flag: flag}
	h(ev)
	if ev.Err != nil {
		return nil, &PathError{Op: "open", Path: name, Err: ev.Err}
	}
	f, err := verifOrigOpenFile(name, flag, perm)
	ev.Post, ev.File, ev.Err = true, f, err
	h(ev)
	return f, err
}

func (f *File) Write(b []byte) (n int, err error) {
	h := VerifHook
	if h == nil || f == nil {
		return f.verifOrigWrite(b)
	}
	ev := &VerifEvent{Op: "write", Name: f.name, File: f, Len: len(b), Off: -1}
	h(ev)
	if ev.Err != nil {
		if ev.Limit > 0 && ev.Limit <= len(b) {
			n, _ = f.verifOrigWrite(b[:ev.Limit])
		}
		err = &PathError{Op: "write", Path: f.name, Err: ev.Err}
		ev.Post, ev.N, ev.Err = true, n, err
		h(ev)
		return n, err
	}
	n, err = f.verifOrigWrite(b)
	ev.Post, ev.N, ev.Err = true, n, err
	h(ev)
	return n, err
}

func (f *File) WriteAt(b []byte, off int64) (n int, err error) {
	h := VerifHook
	if h == nil || f == nil {
		return f.verifOrigWriteAt(b, off)
	}
	ev := &VerifEvent{Op: "writeat", Name: f.name, File: f, Len: len(b), Off: off}
	h(ev)
	if ev.Err != nil {
		if ev.Limit > 0 && ev.Limit <= len(b) {
			n, _ = f.verifOrigWriteAt(b[:ev.Limit], off)
		}
		err = &PathError{Op: "write", Path: f.name, Err: ev.Err}
		ev.Post, ev.N, ev.Err = true, n, err
		h(ev)
		return n, err
	}
	n, err = f.verifOrigWriteAt(b, off)
	ev.Post, ev.N, ev.Err = true, n, err
	h(ev)
	return n, err
}

func (f *File) ReadFrom(r io.Reader) (n int64, err error) {
	if VerifHook == nil || f == nil {
		return f.verifOrigReadFrom(r)
	}
	if err := f.checkValid("write"); err != nil {
		return 0, err
	}
	// route every byte through the hooked Write
	return genericReadFrom(f, r)
}

func (f *File) Sync() error {
	h := VerifHook
	if h == nil || f == nil {
		return f.verifOrigSync()
	}
	ev := &VerifEvent{Op: "sync", Name: f.name, File: f}
	h(ev)
	if ev.Err != nil {
		return &PathError{Op: "sync", Path: f.name, Err: ev.Err}
	}
	err := f.verifOrigSync()
	ev.Post, ev.Err = true, err
	h(ev)
	return err
}

func (f *File) Truncate(size int64) error {
	h := VerifHook
	if h == nil || f == nil {
		return f.verifOrigTruncate(size)
	}
	ev := &VerifEvent{Op: "truncate", Name: f.name, File: f, Off: size}
	h(ev)
	if ev.Err != nil {
		return &PathError{Op: "truncate", Path: f.name, Err: ev.Err}
	}
	err := f.verifOrigTruncate(size)
	ev.Post, ev.Err = true, err
	h(ev)
	return err
}

// Close: an injected error is reported after the descriptor was really
// closed (as a failing close(2) does), so nothing leaks in the simulator.
func (f *File) Close() error {
	h := VerifHook
	if h == nil || f == nil {
		return f.verifOrigClose()
	}
	ev := &VerifEvent{Op: "close", Name: f.name, File: f}
	h(ev)
	err := f.verifOrigClose()
	if ev.Err != nil && err == nil {
		err = &PathError{Op: "close", Path: f.name, Err: ev.Err}
	}
	ev.Post, ev.Err = true, err
	h(ev)
	return err
}

func Remove(name string) error {
	h := VerifHook
	if h == nil {
		return verifOrigRemove(name)
	}
	ev := &VerifEvent{Op: "remove", Name: name}
	h(ev)
	if ev.Err != nil {
		return &PathError{Op: "remove", Path: name, Err: ev.Err}
	}
	err := verifOrigRemove(name)
	ev.Post, ev.Err = true, err
	h(ev)
	return err
}
'''

def main():
    if len(sys.argv) != 3:
        die("usage: gen_overlay.py <goroot> <outdir>")
    goroot, out = sys.argv[1], sys.argv[2]
    os.makedirs(out, exist_ok=True)
    rep = {}

    def emit(rel, content):
        dst = os.path.join(out, rel.replace("/", "__"))
        with open(dst, "w") as f:
            f.write(content)
        rep[os.path.join(goroot, "src", rel)] = dst

    def rd(rel):
        p = os.path.join(goroot, "src", rel)
        try:
            return open(p).read()
        except OSError as e:
            die(str(e))

    emit("runtime/select.go", patch(rd("runtime/select.go"), [
        ("j := cheaprandn(uint32(norder + 1))", "j := verifSelectOrder(uint32(norder + 1))"),
        ("func selectgo(cas0 *scase, order0 *uint16, pc0 *uintptr, nsends, nrecvs int, block bool) (int, bool) {\n\tgp := getg()\n",
         "func selectgo(cas0 *scase, order0 *uint16, pc0 *uintptr, nsends, nrecvs int, block bool) (int, bool) {\n\tverifSelectGate(nsends + nrecvs)\n\tgp := getg()\n"),
    ], "runtime/select.go"))
    emit("runtime/verif_select.go", RUNTIME_NEW)

    emit("sync/rwmutex.go", patch(rd("sync/rwmutex.go"), [
        ("func (rw *RWMutex) RLock() {\n", "func (rw *RWMutex) RLock() {\n\tif h := VerifRWHook; h != nil {\n\t\th(rw, 0)\n\t}\n"),
        ("func (rw *RWMutex) RUnlock() {\n", "func (rw *RWMutex) RUnlock() {\n\tif h := VerifRWHook; h != nil {\n\t\th(rw, 1)\n\t}\n"),
    ], "sync/rwmutex.go"))
    emit("sync/verif_rwhook.go", SYNC_NEW)

    emit("os/file.go", patch(rd("os/file.go"), [
        ("func OpenFile(name string, flag int, perm FileMode) (*File, error) {",
         "func verifOrigOpenFile(name string, flag int, perm FileMode) (*File, error) {"),
        ("func (f *File) Write(b []byte) (n int, err error) {",
         "func (f *File) verifOrigWrite(b []byte) (n int, err error) {"),
        ("func (f *File) WriteAt(b []byte, off int64) (n int, err error) {",
         "func (f *File) verifOrigWriteAt(b []byte, off int64) (n int, err error) {"),
        ("func (f *File) ReadFrom(r io.Reader) (n int64, err error) {",
         "func (f *File) verifOrigReadFrom(r io.Reader) (n int64, err error) {"),
    ], "os/file.go"))
    emit("os/file_posix.go", patch(rd("os/file_posix.go"), [
        ("func (f *File) Close() error {", "func (f *File) verifOrigClose() error {"),
        ("func (f *File) Truncate(size int64) error {", "func (f *File) verifOrigTruncate(size int64) error {"),
        ("func (f *File) Sync() error {", "func (f *File) verifOrigSync() error {"),
    ], "os/file_posix.go"))
    emit("os/file_unix.go", patch(rd("os/file_unix.go"), [
        ("func Remove(name string) error {", "func verifOrigRemove(name string) error {"),
    ], "os/file_unix.go"))
    emit("os/verif_hook.go", OS_NEW)

    with open(os.path.join(out, "overlay.json"), "w") as f:
        json.dump({"Replace": rep}, f, indent=1)
    print(os.path.join(out, "overlay.json"))

if __name__ == "__main__":
    main()
