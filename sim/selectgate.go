package sim

import (
	"runtime"
	"strings"
	"sync"
	"sync/atomic"
)

// Select gate. Without it, which case of a multi-case select in one of
// bluge's loops is ready when the loop gets there is decided by a real-time
// race with whoever feeds its channels (found as a 1.4 % divergence of
// replays in runs that reopen the writer: the new persister's first select
// raced with the new merger's registration). With it, an actor parks before
// every select of package bluge/index and evaluates readiness only when the
// scheduler released it - while every other goroutine is blocked.

var curSim atomic.Pointer[Sim]

var selectCallers sync.Map // pc -> label ("" = not bluge/index)

func selectGateHook() {
	s := curSim.Load()
	if s == nil || !s.selectGates.Load() {
		return
	}
	var pcs [1]uintptr
	// 0 Callers, 1 selectGateHook, 2 runtime.verifSelectGate, 3 runtime.selectgo, 4 the function with the select
	if runtime.Callers(4, pcs[:]) == 0 {
		return
	}
	var label string
	if v, ok := selectCallers.Load(pcs[0]); ok {
		label = v.(string)
	} else {
		if f := runtime.FuncForPC(pcs[0] - 1); f != nil {
			n := f.Name()
			if strings.HasPrefix(n, "github.com/blugelabs/bluge/index.") {
				label = n[strings.LastIndex(n, ".")+1:]
			}
		}
		selectCallers.Store(pcs[0], label)
	}
	if label == "" {
		return
	}
	s.Gate("select", label)
}

func init() { runtime.VerifSetSelectHook(selectGateHook) }

// withoutSelectGates runs f (scheduler goroutine, quiescent system) with the
// select gate off: free-running writers the harness itself creates inside
// the bubble (reference builds of the differential check) have loops of their
// own, which nobody would release.
func (s *Sim) withoutSelectGates(f func()) {
	was := s.selectGates.Swap(false)
	defer s.selectGates.Store(was)
	f()
}
