package sim

import (
	"context"
	"fmt"
	"math"
	"os"
	"path/filepath"
	"sort"
	"strings"
	"time"

	"github.com/blugelabs/bluge"
	"github.com/blugelabs/bluge/index"
	"github.com/blugelabs/bluge/index/mergeplan"
	"github.com/blugelabs/bluge/search"
	"github.com/blugelabs/bluge/search/aggregations"
)

// ---- C08: search answers depend only on the logical documents -------------
//
// Build A is the index a simulated run ended with (arbitrary segmentation,
// pending deletions, merged or not, in memory or on disk, ice v1 or v2), also
// re-read through Backup+OpenReader and, after Close, from disk. Builds B hold
// the same multiset of documents written canonically in several recipes.
// There is no reference semantics: builds must only answer alike.

type qSpec struct {
	Desc string
	Make func() bluge.Query
}

func genQueries(t *Tape, n int, geo bool) []qSpec { return genQueriesFor(t, n, geo, nil) }

// genQueriesFor aims some of the queries at the given documents: terms of
// the unique-valued fields (uid, _id) and flat conjunctions / disjunctions of
// plain terms that one document satisfies - the shapes the bitmap rewrites of
// index/optimize.go take over, with terms that occur once in a segment.
func genQueriesFor(t *Tape, n int, geo bool, docs []*DocSpec) []qSpec {
	w := func() string { return vocab[t.Draw(len(vocab), "q.word")] }
	pick := func() *DocSpec {
		if len(docs) == 0 {
			return &DocSpec{ID: fmt.Sprintf("k%d", t.Draw(6, "q.gid")), UID: fmt.Sprintf("c%d.b%d.o%d", t.Draw(2, "q.gc"), t.Draw(6, "q.gb"), t.Draw(4, "q.go")),
				Tag: tags[t.Draw(len(tags), "q.tag")], Body: w() + " " + w()}
		}
		return docs[t.Draw(len(docs), "q.doc")]
	}
	// a plain term (a TermSearcher) that document d satisfies
	termOf := func(d *DocSpec) qSpec {
		ws := strings.Fields(d.Body)
		word := w()
		if len(ws) > 0 {
			word = ws[t.Draw(len(ws), "q.dword")]
		}
		switch t.Draw(6, "q.tkind") {
		case 0:
			x := d.UID
			return qSpec{"term uid:" + x, func() bluge.Query { return bluge.NewTermQuery(x).SetField("uid") }}
		case 1:
			x := d.ID
			return qSpec{"term _id:" + x, func() bluge.Query { return bluge.NewTermQuery(x).SetField("_id") }}
		case 2:
			x := d.Tag
			return qSpec{"term tag:" + x, func() bluge.Query { return bluge.NewTermQuery(x).SetField("tag") }}
		case 3:
			return qSpec{"term _all:" + word, func() bluge.Query { return bluge.NewTermQuery(word).SetField("_all") }}
		case 4:
			x := d.Tag
			return qSpec{"term _all:" + x, func() bluge.Query { return bluge.NewTermQuery(x).SetField("_all") }}
		default:
			return qSpec{"term body:" + word, func() bluge.Query { return bluge.NewTermQuery(word).SetField("body") }}
		}
	}
	var leaf func() qSpec
	leaf = func() qSpec {
		switch t.Draw(18, "q.kind") {
		case 16, 17:
			return termOf(pick())
		case 0:
			x := w()
			return qSpec{"term body:" + x, func() bluge.Query { return bluge.NewTermQuery(x).SetField("body") }}
		case 1:
			x := tags[t.Draw(len(tags), "q.tag")]
			return qSpec{"term tag:" + x, func() bluge.Query { return bluge.NewTermQuery(x).SetField("tag") }}
		case 2:
			x, y := w(), w()
			and := t.Chance(1, 2, "q.and")
			return qSpec{fmt.Sprintf("match body:%s %s and=%v", x, y, and), func() bluge.Query {
				q := bluge.NewMatchQuery(x + " " + y).SetField("body")
				if and {
					q.SetOperator(bluge.MatchQueryOperatorAnd)
				}
				return q
			}}
		case 3:
			x, y := w(), w()
			slop := t.Draw(3, "q.slop")
			return qSpec{fmt.Sprintf("phrase body:\"%s %s\"~%d", x, y, slop), func() bluge.Query {
				return bluge.NewMatchPhraseQuery(x + " " + y).SetField("body").SetSlop(slop)
			}}
		case 4:
			x, y, z := w(), w(), w()
			slop := t.Draw(2, "q.slop")
			return qSpec{fmt.Sprintf("multiphrase body:[%s|%s] %s ~%d", x, y, z, slop), func() bluge.Query {
				return bluge.NewMultiPhraseQuery([][]string{{x, y}, {z}}).SetField("body").SetSlop(slop)
			}}
		case 5:
			x := w()[:1+t.Draw(2, "q.plen")]
			return qSpec{"prefix body:" + x, func() bluge.Query { return bluge.NewPrefixQuery(x).SetField("body") }}
		case 6:
			x := w()
			p := x[:1] + "*" + x[len(x)-1:]
			return qSpec{"wildcard body:" + p, func() bluge.Query { return bluge.NewWildcardQuery(p).SetField("body") }}
		case 7:
			x := w()
			p := x[:2] + ".*"
			return qSpec{"regexp body:" + p, func() bluge.Query { return bluge.NewRegexpQuery(p).SetField("body") }}
		case 8:
			x := w()
			f := 1 + t.Draw(2, "q.fuzz")
			return qSpec{fmt.Sprintf("fuzzy body:%s~%d", x, f), func() bluge.Query { return bluge.NewFuzzyQuery(x).SetField("body").SetFuzziness(f) }}
		case 9:
			a, b := w(), w()
			if a > b {
				a, b = b, a
			}
			li, hi := t.Chance(1, 2, "q.li"), t.Chance(1, 2, "q.hi")
			return qSpec{fmt.Sprintf("termrange body:%s..%s %v %v", a, b, li, hi), func() bluge.Query {
				return bluge.NewTermRangeInclusiveQuery(a, b, li, hi).SetField("body")
			}}
		case 10:
			a := float64(t.Draw(28, "q.nlo") - 6)
			b := a + float64(t.Draw(12, "q.nw"))
			li, hi := t.Chance(1, 2, "q.li"), t.Chance(1, 2, "q.hi")
			return qSpec{fmt.Sprintf("numrange num:%g..%g %v %v", a, b, li, hi), func() bluge.Query {
				return bluge.NewNumericRangeInclusiveQuery(a, b, li, hi).SetField("num")
			}}
		case 11:
			a := t.Draw(30, "q.dlo")
			b := a + t.Draw(10, "q.dw")
			return qSpec{fmt.Sprintf("daterange day:%d..%d", a, b), func() bluge.Query {
				return bluge.NewDateRangeInclusiveQuery(epoch0.Add(time.Duration(a)*24*time.Hour), epoch0.Add(time.Duration(b)*24*time.Hour), true, true).SetField("day")
			}}
		case 12:
			if !geo {
				return qSpec{"match-all", func() bluge.Query { return bluge.NewMatchAllQuery() }}
			}
			lon := float64(t.Draw(30, "q.lon")-15) / 2
			lat := float64(t.Draw(30, "q.lat")-15) / 2
			return qSpec{fmt.Sprintf("geobox loc:%g,%g+6.3", lon, lat), func() bluge.Query {
				return bluge.NewGeoBoundingBoxQuery(lon+0.013, lat+6.3+0.017, lon+6.3+0.011, lat+0.019).SetField("loc")
			}}
		case 13:
			if !geo {
				return qSpec{"match-none", func() bluge.Query { return bluge.NewMatchNoneQuery() }}
			}
			lon := float64(t.Draw(30, "q.lon")-15)/2 + 0.123
			lat := float64(t.Draw(30, "q.lat")-15)/2 + 0.077
			km := 100 + 150*t.Draw(5, "q.km")
			return qSpec{fmt.Sprintf("geodist loc:%g,%g %dkm", lon, lat, km), func() bluge.Query {
				return bluge.NewGeoDistanceQuery(lon, lat, fmt.Sprintf("%dkm", km)).SetField("loc")
			}}
		case 14:
			return qSpec{"match-all", func() bluge.Query { return bluge.NewMatchAllQuery() }}
		default:
			x := w()
			return qSpec{"match _all:" + x, func() bluge.Query { return bluge.NewMatchQuery(x) }}
		}
	}
	var gen func(depth int) qSpec
	gen = func(depth int) qSpec {
		if depth > 0 && t.Chance(1, 12, "q.wide") {
			// a disjunction of more clauses than DisjunctionHeapTakeover (10):
			// the heap implementation instead of the slice one
			var cl []qSpec
			for i, n := 0, 11+t.Draw(5, "q.nwide"); i < n; i++ {
				if t.Chance(1, 2, "q.wother") {
					cl = append(cl, termOf(pick()))
				} else {
					x := w()
					cl = append(cl, qSpec{"term body:" + x, func() bluge.Query { return bluge.NewTermQuery(x).SetField("body") }})
				}
			}
			var ds []string
			for _, q := range cl {
				ds = append(ds, q.Desc)
			}
			min := t.Draw(3, "q.wmin")
			return qSpec{fmt.Sprintf("bool{should[%s]>=%d}", strings.Join(ds, ", "), min), func() bluge.Query {
				b := bluge.NewBooleanQuery()
				for _, q := range cl {
					b.AddShould(q.Make())
				}
				b.SetMinShould(min)
				return b
			}}
		}
		if depth > 0 && t.Chance(1, 5, "q.flat") {
			// flat conjunction or disjunction of plain terms, most of them
			// satisfied by one document
			d := pick()
			var cl []qSpec
			for i, n := 0, 2+t.Draw(3, "q.nflat"); i < n; i++ {
				if t.Chance(1, 6, "q.other") {
					cl = append(cl, termOf(pick()))
				} else {
					cl = append(cl, termOf(d))
				}
			}
			var ds []string
			for _, q := range cl {
				ds = append(ds, q.Desc)
			}
			if t.Chance(2, 3, "q.conj") {
				return qSpec{fmt.Sprintf("bool{must[%s]}", strings.Join(ds, ", ")), func() bluge.Query {
					b := bluge.NewBooleanQuery()
					for _, q := range cl {
						b.AddMust(q.Make())
					}
					return b
				}}
			}
			min := t.Draw(2, "q.fmin")
			return qSpec{fmt.Sprintf("bool{should[%s]>=%d}", strings.Join(ds, ", "), min), func() bluge.Query {
				b := bluge.NewBooleanQuery()
				for _, q := range cl {
					b.AddShould(q.Make())
				}
				b.SetMinShould(min)
				return b
			}}
		}
		if depth == 0 || !t.Chance(2, 5, "q.bool") {
			return leaf()
		}
		var must, should, not []qSpec
		for i, n := 0, t.Draw(3, "q.nmust"); i < n; i++ {
			must = append(must, gen(depth-1))
		}
		for i, n := 0, t.Draw(4, "q.nshould"); i < n; i++ {
			should = append(should, gen(depth-1))
		}
		for i, n := 0, t.Draw(2, "q.nnot"); i < n; i++ {
			not = append(not, gen(depth-1))
		}
		if len(must)+len(should) == 0 {
			must = append(must, leaf())
		}
		min := 0
		if len(should) > 0 {
			min = t.Draw(len(should)+1, "q.minshould")
		}
		d := func(qs []qSpec) string {
			var s []string
			for _, q := range qs {
				s = append(s, q.Desc)
			}
			return strings.Join(s, ", ")
		}
		return qSpec{fmt.Sprintf("bool{must[%s] should[%s]>=%d not[%s]}", d(must), d(should), min, d(not)), func() bluge.Query {
			b := bluge.NewBooleanQuery()
			for _, q := range must {
				b.AddMust(q.Make())
			}
			for _, q := range should {
				b.AddShould(q.Make())
			}
			for _, q := range not {
				b.AddMustNot(q.Make())
			}
			b.SetMinShould(min)
			return b
		}}
	}
	qs := make([]qSpec, 0, n)
	for i := 0; i < n; i++ {
		qs = append(qs, gen(2))
	}
	return qs
}

// a searchable build: one reader, or several searched with MultiSearch
type build struct {
	name    string
	readers []*bluge.Reader
	closers []func()
	// scores are comparable only between builds without merged segments and
	// without pending deletions
	scoreOK bool
	// scoreMerged: the build was made with merging on; score differences are
	// the listed known finding (ice rewrites the field-length statistic)
	scoreMerged bool
}

func (b *build) close() {
	for _, r := range b.readers {
		_ = r.Close()
	}
	for i := len(b.closers) - 1; i >= 0; i-- {
		b.closers[i]()
	}
}

func (b *build) search(req bluge.SearchRequest) (search.DocumentMatchIterator, error) {
	if len(b.readers) == 1 {
		return b.readers[0].Search(context.Background(), req)
	}
	return bluge.MultiSearch(context.Background(), req, b.readers...)
}

type answer struct {
	set    string // sorted uids
	fields string // hash of stored fields per uid
	sorted string // uids under a total field sort
	aggs   string
	scores string // uid:score under -_score,uid
	score  map[string]float64
	noScore string // uids found with scoring turned off (unadorned bitmap rewrites apply then)
	page    string // hits 3..5 under the total sort
}

func uidAndFields(m *search.DocumentMatch) (string, uint64) {
	uid := ""
	h := uint64(7)
	var kv []string
	_ = m.VisitStoredFields(func(f string, v []byte) bool {
		if f == "uid" {
			uid = string(v)
		}
		kv = append(kv, f+"="+string(v))
		return true
	})
	sort.Strings(kv)
	for _, s := range kv {
		h = mix64(h, hashStr(s))
	}
	return uid, h
}

func (b *build) answer(q qSpec, withScores bool) (*answer, error) {
	heartbeat.Add(1) // harness-side work in progress: not a window that fails to quiesce
	a := &answer{}
	// (1)+(2) match set and stored fields
	it, err := b.search(bluge.NewAllMatches(q.Make()))
	if err != nil {
		return nil, fmt.Errorf("all-matches: %w", err)
	}
	type uf struct {
		uid string
		h   uint64
	}
	var ufs []uf
	for {
		m, err := it.Next()
		if err != nil {
			return nil, fmt.Errorf("all-matches next: %w", err)
		}
		if m == nil {
			break
		}
		u, h := uidAndFields(m)
		ufs = append(ufs, uf{u, h})
	}
	sort.Slice(ufs, func(i, j int) bool { return ufs[i].uid < ufs[j].uid })
	var us []string
	fh := uint64(3)
	for _, x := range ufs {
		us = append(us, x.uid)
		fh = mix64(fh, mix64(hashStr(x.uid), x.h))
	}
	a.set = strings.Join(us, ",")
	a.fields = fmt.Sprintf("%x", fh)
	// (3)+(4) total field sort and aggregations
	top := bluge.NewTopNSearch(1000, q.Make()).SortBy([]string{"-num", "tag", "-day", "uid"})
	top.AddAggregation("cnt", aggregations.CountMatches())
	top.AddAggregation("sum", aggregations.Sum(search.Field("num")))
	top.AddAggregation("min", aggregations.Min(search.Field("num")))
	top.AddAggregation("max", aggregations.Max(search.Field("num")))
	top.AddAggregation("avg", aggregations.Avg(search.Field("num")))
	ta := aggregations.NewTermsAggregation(search.Field("tag"), 10)
	ta.AddAggregation("s", aggregations.Sum(search.Field("num")))
	top.AddAggregation("tags", ta)
	it, err = b.search(top)
	if err != nil {
		return nil, fmt.Errorf("top-n: %w", err)
	}
	var ord []string
	for {
		m, err := it.Next()
		if err != nil {
			return nil, fmt.Errorf("top-n next: %w", err)
		}
		if m == nil {
			break
		}
		u, _ := uidAndFields(m)
		ord = append(ord, u)
	}
	a.sorted = strings.Join(ord, ",")
	if bk := it.Aggregations(); bk != nil {
		var parts []string
		for _, n := range []string{"cnt", "sum", "min", "max", "avg"} {
			if mc, ok := bk.Aggregations()[n].(search.MetricCalculator); ok {
				v := mc.Value()
				if len(ord) == 0 && (n == "min" || n == "max" || n == "avg") {
					v = 0 // empty match set: min/max/avg start values are not answers
				}
				if math.IsNaN(v) {
					v = 0
				}
				parts = append(parts, fmt.Sprintf("%s=%.6g", n, v))
			}
		}
		if tc, ok := bk.Aggregations()["tags"].(search.BucketCalculator); ok {
			var bs []string
			for _, tb := range tc.Buckets() {
				s := 0.0
				if mc, ok := tb.Aggregations()["s"].(search.MetricCalculator); ok {
					s = mc.Value()
				}
				bs = append(bs, fmt.Sprintf("%s:%d:%.6g", tb.Name(), tb.Count(), s))
			}
			sort.Strings(bs)
			parts = append(parts, strings.Join(bs, ";"))
		}
		a.aggs = strings.Join(parts, " ")
	}
	// (4b) scoring turned off: the unadorned conjunction / disjunction
	// rewrites are only taken in this mode
	it, err = b.search(bluge.NewTopNSearch(1000, q.Make()).SetScore("none").SortBy([]string{"uid"}))
	if err != nil {
		return nil, fmt.Errorf("score-none: %w", err)
	}
	var ns []string
	for {
		m, err := it.Next()
		if err != nil {
			return nil, fmt.Errorf("score-none next: %w", err)
		}
		if m == nil {
			break
		}
		u, _ := uidAndFields(m)
		ns = append(ns, u)
	}
	a.noScore = strings.Join(ns, ",")
	// (4c) a page of a small top-N under the total sort (the collector keeps
	// a list instead of a heap for small sizes, and skips `from` hits)
	it, err = b.search(bluge.NewTopNSearch(3, q.Make()).SetFrom(2).SortBy([]string{"-num", "tag", "-day", "uid"}))
	if err != nil {
		return nil, fmt.Errorf("page: %w", err)
	}
	var pg []string
	for {
		m, err := it.Next()
		if err != nil {
			return nil, fmt.Errorf("page next: %w", err)
		}
		if m == nil {
			break
		}
		u, _ := uidAndFields(m)
		pg = append(pg, u)
	}
	a.page = strings.Join(pg, ",")
	// (5) scores
	if withScores {
		it, err = b.search(bluge.NewTopNSearch(1000, q.Make()).SortBy([]string{"-_score", "uid"}))
		if err != nil {
			return nil, fmt.Errorf("scored: %w", err)
		}
		var ss []string
		for {
			m, err := it.Next()
			if err != nil {
				return nil, fmt.Errorf("scored next: %w", err)
			}
			if m == nil {
				break
			}
			u, _ := uidAndFields(m)
			ss = append(ss, fmt.Sprintf("%s:%v", u, m.Score))
			if a.score == nil {
				a.score = map[string]float64{}
			}
			a.score[u] = m.Score
		}
		a.scores = strings.Join(ss, ",")
	}
	return a, nil
}

func noMergeConfig(cfg bluge.Config) bluge.Config {
	ic := cfg.VerifIndexConfig()
	opts := mergeplan.DefaultMergePlanOptions
	opts.MaxSegmentsPerTier = 1 << 20
	opts.FloorSegmentSize = 1
	ic.MergePlanOptions = opts
	ic.MinSegmentsForInMemoryMerge = 1 << 20
	return cfg.VerifWithIndexConfig(ic)
}

// memBuild writes docs into an in-memory index, per docs per batch.
func memBuild(name string, docs []*DocSpec, per int, cfg bluge.Config, scoreOK bool) (*build, error) {
	w, err := bluge.OpenWriter(cfg)
	if err != nil {
		return nil, err
	}
	for i := 0; i < len(docs); i += per {
		heartbeat.Add(1)
		b := bluge.NewBatch()
		for j := i; j < i+per && j < len(docs); j++ {
			b.Insert(docs[j].Bluge())
		}
		if err := w.Batch(b); err != nil {
			_ = w.Close()
			return nil, err
		}
	}
	settleWriter(w) // no merge runs while the build is searched
	rd, err := w.Reader()
	if err != nil {
		_ = w.Close()
		return nil, err
	}
	return &build{name: name, readers: []*bluge.Reader{rd}, closers: []func(){func() { _ = w.Close() }}, scoreOK: scoreOK}, nil
}

type diffStats struct {
	builds, queries, comparisons, scoreComparisons int
}

// differential compares build A (readers given) with canonical builds of the
// abstract index's live documents.
func (r *Run) differential(tag string, A *build, withRecipes bool) {
	r.s.withoutSelectGates(func() { r.differential1(tag, A, withRecipes) })
}

func (r *Run) differential1(tag string, A *build, withRecipes bool) {
	docs := append([]*DocSpec(nil), r.chain.Current().Live...)
	t := r.t
	if r.diffQueries == nil {
		r.diffQueries = genQueriesFor(t, 10+t.Draw(10, "diff.nq"), r.k.Geo, docs)
	}
	qs := r.diffQueries
	var builds []*build
	defer func() {
		for _, b := range builds {
			b.close()
		}
	}()
	add := func(b *build, err error, what string) bool {
		if err != nil {
			r.fail("layout-build", fmt.Sprintf("building the same %d documents as %s failed: %v", len(docs), what, err))
			return false
		}
		builds = append(builds, b)
		return true
	}
	base := noMergeConfig(bluge.InMemoryOnlyConfig())
	if r.refAnswers == nil {
		// the reference: all documents in one batch, in memory, no merges
		ref, err := memBuild("one-batch", docs, len(docs)+1, base, true)
		if !add(ref, err, "one in-memory batch") {
			return
		}
		r.refAnswers = map[int]*answer{}
		for i, q := range qs {
			a, err := ref.answer(q, true)
			if err != nil {
				r.fail("layout-search", fmt.Sprintf("query %s on build one-batch failed: %v", q.Desc, err))
				return
			}
			if a.noScore != a.set {
				r.fail("layout-match-set", fmt.Sprintf("query %s on build one-batch: with scoring turned off it matches {%s}, scored {%s}", q.Desc, a.noScore, a.set))
				return
			}
			r.refAnswers[i] = a
		}
		r.stats.Probes["diff-reference-builds"]++
	}
	cmp := func(b *build) bool {
		for i, q := range qs {
			got, err := b.answer(q, b.scoreOK || b.scoreMerged)
			if err != nil {
				r.fail("layout-search", fmt.Sprintf("query %s on build %s failed: %v (one-batch build answers it)", q.Desc, b.name, err))
				return false
			}
			ref := r.refAnswers[i]
			r.stats.Probes["diff-comparisons"]++
			r.stats.Probes["diff-score-none-comparisons"]++
			if strings.HasPrefix(q.Desc, "bool{must[term ") && !strings.Contains(q.Desc, "should[") && got.set != "" {
				r.stats.Probes["diff-flat-term-conjunction-with-matches"]++
			}
			switch {
			case got.set != ref.set:
				r.fail("layout-match-set", fmt.Sprintf("query %s: build %s matches {%s}, build one-batch matches {%s} (same %d documents)", q.Desc, b.name, got.set, ref.set, len(docs)))
			case got.fields != ref.fields:
				r.fail("layout-stored-fields", fmt.Sprintf("query %s: stored fields of the matches differ between build %s and build one-batch", q.Desc, b.name))
			case got.sorted != ref.sorted:
				r.fail("layout-sort-order", fmt.Sprintf("query %s under sort -num,tag,-day,uid: build %s returns [%s], build one-batch [%s]", q.Desc, b.name, got.sorted, ref.sorted))
			case got.noScore != ref.set && os.Getenv("BSIM_EXPLAIN") != "" && func() bool {
				for _, d := range docs { // debugging aid: the corpus
					fmt.Fprintf(os.Stderr, "DOC %s id=%s body=%q tag=%s num=%g day=%d\n", d.UID, d.ID, d.Body, d.Tag, d.Num, d.Day)
				}
				return false
			}():
			case got.noScore != ref.set:
				r.fail("layout-match-set", fmt.Sprintf("query %s with scoring turned off: build %s matches {%s}, build one-batch (scored) matches {%s} [same builds the other way round: %s scored {%s}, one-batch unscored {%s}]", q.Desc, b.name, got.noScore, ref.set, b.name, got.set, ref.noScore))
			case got.page != ref.page:
				r.fail("layout-sort-order", fmt.Sprintf("query %s, top-N of size 3 from 2 under sort -num,tag,-day,uid: build %s returns [%s], build one-batch [%s]", q.Desc, b.name, got.page, ref.page))
			case got.aggs != ref.aggs:
				r.fail("layout-aggregations", fmt.Sprintf("query %s: build %s aggregates %q, build one-batch %q", q.Desc, b.name, got.aggs, ref.aggs))
			case b.scoreMerged && !sameScores(got, ref) && got.set == ref.set:
				r.observe("layout-scores-merged", fmt.Sprintf("query %s: build %s (contains merged segments) scores [%s], build one-batch scores [%s]", q.Desc, b.name, got.scores, ref.scores))
			case b.scoreOK && !sameScores(got, ref):
				if os.Getenv("BSIM_EXPLAIN") != "" { // debugging aid: explanations of both builds
					if pq := os.Getenv("BSIM_PROBEQ"); pq != "" { // debugging aid: a single-term probe on both builds
						if rb, err := memBuild("one-batch", docs, len(docs)+1, base, true); err == nil {
							for _, bb := range []*build{b, rb} {
								pa, _ := bb.answer(qSpec{"probe", func() bluge.Query { return bluge.NewMatchQuery(pq) }}, true)
								fmt.Fprintf(os.Stderr, "PROBE %q build=%s set={%s} scores=[%s]\n", pq, bb.name, pa.set, pa.scores)
							}
							rb.close()
						}
						for _, d := range docs {
							fmt.Fprintf(os.Stderr, "DOC %s id=%s body=%q tag=%s num=%g day=%d\n", d.UID, d.ID, d.Body, d.Tag, d.Num, d.Day)
						}
					}
					for k := 0; k < 3; k++ {
						a2, _ := b.answer(q, true)
						fmt.Fprintf(os.Stderr, "REPEAT %d build=%s scores=[%s]\n", k, b.name, a2.scores)
					}
					if it, err := b.search(bluge.NewTopNSearch(1000, q.Make()).SortBy([]string{"-_score", "uid"})); err == nil {
						var ss []string
						for {
							m, _ := it.Next()
							if m == nil {
								break
							}
							u, _ := uidAndFields(m)
							ss = append(ss, fmt.Sprintf("%s:%v", u, m.Score))
						}
						fmt.Fprintf(os.Stderr, "SCORED-ONLY build=%s scores=%v\n", b.name, ss)
					}
					if rb, err := memBuild("one-batch", docs, len(docs)+1, base, true); err == nil {
						for _, bb := range []*build{b, rb} {
							if it, err := bb.search(bluge.NewTopNSearch(3, q.Make()).SortBy([]string{"-_score", "uid"}).ExplainScores()); err == nil {
								if m, _ := it.Next(); m != nil {
									u, _ := uidAndFields(m)
									fmt.Fprintf(os.Stderr, "EXPLAIN build=%s uid=%s score=%v\n%v\n", bb.name, u, m.Score, m.Explanation)
								}
							}
						}
						rb.close()
					}
				}
				r.fail("layout-scores", fmt.Sprintf("query %s: scores differ between build %s [%s] and build one-batch [%s] although neither holds merged segments or pending deletions", q.Desc, b.name, got.scores, ref.scores))
			}
			if b.scoreOK {
				r.stats.Probes["diff-score-comparisons"]++
			}
			if r.failed() {
				return false
			}
		}
		return true
	}
	A.name = tag
	if !cmp(A) {
		return
	}
	r.stats.Probes["diff-builds-"+tag]++
	if !withRecipes {
		return
	}
	// recipe builds of the same documents
	perm := append([]*DocSpec(nil), docs...)
	for i := len(perm) - 1; i > 0; i-- {
		j := t.Draw(i+1, "diff.perm")
		perm[i], perm[j] = perm[j], perm[i]
	}
	b, err := memBuild("permuted-one-batch", perm, len(perm)+1, base, true)
	if !add(b, err, "a permuted in-memory batch") || !cmp(b) {
		return
	}
	b, err = memBuild("one-doc-per-batch", docs, 1, base, true)
	if !add(b, err, "one document per batch") || !cmp(b) {
		return
	}
	// default merge plan: merged segments => scores are a listed known finding
	b, err = memBuild("one-doc-per-batch-merged", docs, 1, bluge.InMemoryOnlyConfig(), false)
	if b != nil {
		b.scoreMerged = true
	}
	if !add(b, err, "one document per batch with merging") || !cmp(b) {
		return
	}
	// the other segment format, optimisations off
	other := 2
	if r.k.SegVer == 2 {
		other = 1
	}
	cfgOther := base.WithSegmentVersion(uint32(other))
	b, err = memBuild(fmt.Sprintf("ice-v%d", other), docs, 1+t.Draw(4, "diff.per"), cfgOther, true)
	if !add(b, err, "the other segment format") || !cmp(b) {
		return
	}
	cfgNoOpt := base.DisableOptimizeConjunction().DisableOptimizeConjunctionUnadorned().DisableOptimizeDisjunctionUnadorned()
	b, err = memBuild("no-optimisations", perm, 2, cfgNoOpt, true)
	if !add(b, err, "with the query optimisations disabled") || !cmp(b) {
		return
	}
	// offline writer with a seeded batch size
	offDir := filepath.Join(r.root, fmt.Sprintf("offline-%s", tag))
	_ = os.RemoveAll(offDir)
	bs := 1 + t.Draw(5, "diff.offline.batch")
	ob, err := offlineBuild(offDir, docs, bs, r.k.SegVer)
	if err != nil && len(docs) == 0 {
		// an empty corpus must also build (the property includes it)
		r.fail("layout-build", fmt.Sprintf("OfflineWriter with an empty corpus: %v", err))
		return
	}
	if !add(ob, err, fmt.Sprintf("OfflineWriter(batch size %d)", bs)) || !cmp(ob) {
		return
	}
	// partitioned over k indexes, MultiSearch
	if len(docs) > 0 {
		k := 2 + t.Draw(3, "diff.k")
		mb := &build{name: fmt.Sprintf("multisearch-%d", k)}
		builds = append(builds, mb)
		for p := 0; p < k; p++ {
			var part []*DocSpec
			for i, d := range docs {
				if i%k == p {
					part = append(part, d)
				}
			}
			pb, err := memBuild("part", part, 3, base, false)
			if err != nil {
				r.fail("layout-build", fmt.Sprintf("partition build failed: %v", err))
				return
			}
			mb.readers = append(mb.readers, pb.readers...)
			mb.closers = append(mb.closers, pb.closers...)
		}
		if !cmp(mb) {
			return
		}
	}
	r.stats.Probes["diff-recipe-rounds"]++
	r.offlineSizes(qs, base)
}

// offlineSizes compares the offline writer with the one-batch build on a
// corpus of its own: 9-48 generated documents written one, two or three per
// offline batch, so that the number of offline segments crosses the offline
// writer's merge fan-in (10) once or twice, with and without a remainder -
// the corpora the runs end with are usually too small for that.
func (r *Run) offlineSizes(qs []qSpec, base bluge.Config) {
	t := r.t
	if !t.Chance(1, 2, "diff.offsizes") {
		return
	}
	n := 9 + t.Draw(40, "diff.offsizes.n")
	docs := make([]*DocSpec, n)
	for i := range docs {
		docs[i] = genDoc(t, fmt.Sprintf("s%03d", i), fmt.Sprintf("s.%03d", i), r.k.Geo)
	}
	per := t.Draw(3, "diff.offsizes.per") // documents per offline batch = per + 1
	ref, err := memBuild("one-batch", docs, n+1, base, true)
	if err != nil {
		r.fail("layout-build", fmt.Sprintf("building %d generated documents in one batch failed: %v", n, err))
		return
	}
	defer ref.close()
	dir := filepath.Join(r.root, "offline-sizes")
	_ = os.RemoveAll(dir)
	ob, err := offlineBuild(dir, docs, per, r.k.SegVer)
	if err != nil {
		r.fail("layout-build", fmt.Sprintf("OfflineWriter(batch size %d) over %d generated documents failed: %v", per, n, err))
		return
	}
	defer ob.close()
	for _, q := range append([]qSpec{{"match-all", func() bluge.Query { return bluge.NewMatchAllQuery() }}}, qs...) {
		want, err1 := ref.answer(q, false)
		got, err2 := ob.answer(q, false)
		if err1 != nil || err2 != nil {
			r.fail("layout-search", fmt.Sprintf("query %s on %d generated documents: one-batch %v, offline writer %v", q.Desc, n, err1, err2))
			return
		}
		r.stats.Probes["diff-offline-sizes-comparisons"]++
		switch {
		case got.set != want.set:
			r.fail("layout-match-set", fmt.Sprintf("query %s over %d generated documents: build %s (%d documents per offline batch) matches {%s}, build one-batch matches {%s}", q.Desc, n, ob.name, per+1, got.set, want.set))
		case got.fields != want.fields:
			r.fail("layout-stored-fields", fmt.Sprintf("query %s over %d generated documents: stored fields differ between build %s and build one-batch", q.Desc, n, ob.name))
		case got.sorted != want.sorted || got.page != want.page:
			r.fail("layout-sort-order", fmt.Sprintf("query %s over %d generated documents: build %s returns [%s], build one-batch [%s]", q.Desc, n, ob.name, got.sorted, want.sorted))
		case got.aggs != want.aggs:
			r.fail("layout-aggregations", fmt.Sprintf("query %s over %d generated documents: build %s aggregates %q, build one-batch %q", q.Desc, n, ob.name, got.aggs, want.aggs))
		case got.noScore != want.set:
			r.fail("layout-match-set", fmt.Sprintf("query %s over %d generated documents with scoring turned off: build %s matches {%s}, build one-batch {%s}", q.Desc, n, ob.name, got.noScore, want.set))
		}
		if r.failed() {
			return
		}
	}
	if segs := (n + per) / (per + 1); segs > 10 {
		r.stats.Probes["diff-offline-more-than-10-segments"]++
	}
}

func offlineBuild(dir string, docs []*DocSpec, batchSize int, segVer int) (b *build, err error) {
	defer func() {
		if p := recover(); p != nil {
			err = fmt.Errorf("panic: %v", p)
		}
	}()
	cfg := bluge.DefaultConfig(dir)
	if segVer == 2 {
		cfg = cfg.WithSegmentVersion(2)
	}
	ow, err := bluge.OpenOfflineWriter(cfg, batchSize, 10)
	if err != nil {
		return nil, err
	}
	for _, d := range docs {
		if err := ow.Insert(d.Bluge()); err != nil {
			return nil, err
		}
	}
	if err := ow.Close(); err != nil {
		return nil, err
	}
	rd, err := bluge.OpenReader(cfg)
	if err != nil {
		return nil, err
	}
	return &build{name: fmt.Sprintf("offline-writer-%d", batchSize), readers: []*bluge.Reader{rd}}, nil
}

// diffLive runs at quiescence with the writer still open.
func (r *Run) diffLive() {
	rd, err := r.w.Reader()
	if err != nil {
		r.fail("reader", "Writer.Reader failed: "+err.Error())
		return
	}
	A := &build{readers: []*bluge.Reader{rd}}
	r.differential("run-layout", A, true)
	if r.failed() {
		_ = rd.Close()
		return
	}
	// Backup + OpenReader
	bdir := filepath.Join(r.root, "backup")
	_ = os.RemoveAll(bdir)
	_ = os.MkdirAll(bdir, 0700) // Reader.Backup does not create its target directory
	if err := rd.Backup(bdir, nil); err != nil {
		_ = rd.Close()
		r.fail("layout-build", "Reader.Backup failed: "+err.Error())
		return
	}
	_ = rd.Close()
	cfg := bluge.DefaultConfigWithDirectory(func() index.Directory { return index.NewFileSystemDirectory(bdir) })
	brd, err := bluge.OpenReader(cfg)
	if err != nil {
		if len(r.chain.Current().Live) == 0 && !r.anyVisibleBatch() {
			return
		}
		r.fail("layout-build", "OpenReader on a backup failed: "+err.Error())
		return
	}
	B := &build{readers: []*bluge.Reader{brd}}
	r.differential("backup-restored", B, false)
	_ = brd.Close()
}

// diffDisk runs after Close on the reopened directory.
func (r *Run) diffDisk() {
	if r.k.Dir != "fs" {
		return
	}
	rd, err := bluge.OpenReader(r.cfg)
	if err != nil {
		return // reopenCheck reports this
	}
	r.differential("reopened-from-disk", &build{readers: []*bluge.Reader{rd}}, false)
	_ = rd.Close()
}

// observe records a non-fatal observation; the driver matches it against the
// known findings (unmatched observations are violations).
func (r *Run) observe(oracle, msg string) {
	for _, o := range r.observations {
		if o.Oracle == oracle {
			return // one per run is enough
		}
	}
	r.observations = append(r.observations, Violation{Oracle: oracle, Msg: msg, Win: r.s.Win})
}

// sameScores: equal per document up to floating-point summation order. A
// compound query adds the same partial scores in an order that depends on
// document numbering, so builds that number documents differently may differ
// in the last bits; anything beyond a relative 1e-12 is a real difference.
func sameScores(a, b *answer) bool {
	if a.scores == b.scores {
		return true
	}
	if len(a.score) != len(b.score) {
		return false
	}
	for u, x := range a.score {
		y, ok := b.score[u]
		if !ok {
			return false
		}
		d := math.Abs(x - y)
		if d > 1e-12*math.Max(math.Abs(x), math.Abs(y)) {
			return false
		}
	}
	return true
}
