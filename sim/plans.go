package sim

import (
	"fmt"
	"sort"
	"strings"
	"testing"
	"time"

	"github.com/blugelabs/bluge/index"
	"github.com/blugelabs/bluge/index/mergeplan"
)

// ---- C19: merge plans are well-formed and keep the segment count bounded ----

type stubSeg struct {
	id         uint64
	full, live int64
}

func (s *stubSeg) ID() uint64      { return s.id }
func (s *stubSeg) FullSize() int64 { return s.full }
func (s *stubSeg) LiveSize() int64 { return s.live }

func taskKey(t *mergeplan.MergeTask) string {
	ids := make([]string, 0, len(t.Segments))
	for _, s := range t.Segments {
		ids = append(ids, fmt.Sprintf("%x", s.ID()))
	}
	sort.Strings(ids)
	return strings.Join(ids, "+")
}

func planKey(p *mergeplan.MergePlan) string {
	if p == nil {
		return "<nil>"
	}
	var ts []string
	for _, t := range p.Tasks {
		ts = append(ts, taskKey(t))
	}
	return strings.Join(ts, " | ")
}

// checkPlan applies the well-formedness invariants to one plan of the real
// planner over the given input.
func checkPlan(in []mergeplan.Segment, o *mergeplan.Options, p *mergeplan.MergePlan) string {
	if p == nil {
		return ""
	}
	inSet := map[mergeplan.Segment]bool{}
	for _, s := range in {
		inSet[s] = true
	}
	seen := map[mergeplan.Segment]int{}
	for ti, t := range p.Tasks {
		var live int64
		allEmpty := true
		for _, s := range t.Segments {
			if !inSet[s] {
				return fmt.Sprintf("task %d contains segment %x which is not in the planner's input", ti, s.ID())
			}
			if prev, dup := seen[s]; dup {
				return fmt.Sprintf("segment %x is placed in two tasks (%d and %d)", s.ID(), prev, ti)
			}
			seen[s] = ti
			live += s.LiveSize()
			if s.LiveSize() > 0 {
				allEmpty = false
			}
			if s.LiveSize() >= o.MaxSegmentSize/2 && s.LiveSize() > 0 {
				return fmt.Sprintf("task %d touches segment %x of live size %d, at or above half the maximum segment size %d", ti, s.ID(), s.LiveSize(), o.MaxSegmentSize)
			}
		}
		if !allEmpty && live >= o.MaxSegmentSize {
			return fmt.Sprintf("task %d combines %d live documents, not below the maximum segment size %d", ti, live, o.MaxSegmentSize)
		}
		if len(t.Segments) == 0 {
			return fmt.Sprintf("task %d is empty", ti)
		}
	}
	return ""
}

func (r *Run) planOptions() mergeplan.Options {
	return r.cfg.VerifIndexConfig().MergePlanOptions
}

func stubsOf(infos []index.VerifSegmentInfo) []mergeplan.Segment {
	var in []mergeplan.Segment
	for _, si := range infos {
		if si.Persisted {
			in = append(in, &stubSeg{id: si.ID, full: int64(si.Full), live: int64(si.Full) - int64(si.Deleted)})
		}
	}
	return in
}

// planMonitor runs after every window: when the merger is parked inside the
// planner (CalcBudget seam) the input it plans on is the current root; the
// real planner is run on that input twice and its result checked; the merges
// the merger then executes must be exactly those tasks.
func (r *Run) planMonitor(evs []*Event) {
	if !r.p.PlanInv {
		return
	}
	for _, e := range evs {
		if e.Kind == "merge" && e.Actor == "merger" {
			r.execMerges = append(r.execMerges, e.Detail)
		}
		if e.Kind == "event" && e.Detail == "merger-progress" && e.Actor == "merger" && r.expectPlan != nil {
			// the planning round is over: compare executed merges with the plan
			if msg := r.comparePlanExecution(); msg != "" {
				r.fail("plan-executed", msg)
				return
			}
			r.expectPlan = nil
			r.execMerges = nil
		}
	}
	parkedInPlanner := false
	for _, p := range r.s.parkedSnapshot() {
		if p.actor == "merger" && p.label == "plan.calcBudget" {
			parkedInPlanner = true
		}
	}
	if !parkedInPlanner || r.expectPlan != nil {
		return
	}
	r.mu.Lock()
	w, open := r.w, r.wOpen
	r.mu.Unlock()
	if !open || w == nil {
		return
	}
	rd, err := w.Reader()
	if err != nil {
		return
	}
	infos := rd.VerifSnapshot().VerifSegmentInfos()
	_ = rd.Close()
	in := stubsOf(infos)
	o := r.planOptions()
	o.CalcBudget, o.ScoreSegments = nil, nil // the stock functions, without the harness gate
	p1, err1 := mergeplan.Plan(in, &o)
	p2, err2 := mergeplan.Plan(in, &o)
	if err1 != nil || err2 != nil {
		r.fail("plan-error", fmt.Sprintf("the planner returned an error on a real snapshot: %v %v", err1, err2))
		return
	}
	r.stats.Probes["plans-checked"]++
	if planKey(p1) != planKey(p2) {
		r.fail("plan-deterministic", fmt.Sprintf("planning the same %d segments twice gave [%s] and then [%s]", len(in), planKey(p1), planKey(p2)))
		return
	}
	// a permuted input must give the same tasks
	perm := append([]mergeplan.Segment(nil), in...)
	for i, j := 0, len(perm)-1; i < j; i, j = i+1, j-1 {
		perm[i], perm[j] = perm[j], perm[i]
	}
	p3, _ := mergeplan.Plan(perm, &o)
	if planKey(p1) != planKey(p3) {
		r.fail("plan-deterministic", fmt.Sprintf("planning the same %d segments in reversed input order gave [%s] instead of [%s]", len(in), planKey(p3), planKey(p1)))
		return
	}
	if msg := checkPlan(in, &o, p1); msg != "" {
		r.fail("plan-well-formed", fmt.Sprintf("plan [%s] over %d persisted segments (max segment size %d): %s", planKey(p1), len(in), o.MaxSegmentSize, msg))
		return
	}
	if p1 != nil && len(p1.Tasks) > 0 {
		r.stats.Probes["plans-with-tasks"]++
		for _, t := range p1.Tasks {
			var live int64
			for _, s := range t.Segments {
				live += s.LiveSize()
			}
			if live*2 >= o.MaxSegmentSize {
				r.stats.Probes["plan-task-near-size-limit"]++
			}
		}
		for _, s := range in {
			if s.LiveSize() >= o.MaxSegmentSize/2 {
				r.stats.Probes["segment-too-big-to-merge"]++
				break
			}
		}
	}
	r.expectPlan = p1
	if r.expectPlan == nil {
		r.expectPlan = &mergeplan.MergePlan{}
	}
	r.execMerges = nil
}

// comparePlanExecution: the merger executed exactly the planned tasks, in
// order (a task whose segments are all empty produces no merge).
func (r *Run) comparePlanExecution() string {
	var want []string
	for _, t := range r.expectPlan.Tasks {
		var live []uint64
		n := 0
		for _, s := range t.Segments {
			if s.LiveSize() > 0 {
				live = append(live, uint64(s.LiveSize()))
				n++
			}
		}
		if n == 0 {
			continue
		}
		want = append(want, fmt.Sprintf("n=%d live=%v", n, live))
	}
	// deletions that land while the tasks run change live sizes: compare the
	// number of merges and their widths only when sizes differ
	if len(want) != len(r.execMerges) {
		return fmt.Sprintf("the planner returned tasks %v on the snapshot the merger planned on, but the merger executed merges %v", want, r.execMerges)
	}
	for i := range want {
		wn := strings.SplitN(want[i], " ", 2)[0]
		gn := strings.SplitN(r.execMerges[i], " ", 2)[0]
		if wn != gn {
			// a segment emptied by a concurrent delete is dropped from the merge
			r.stats.Probes["task-shrunk-by-concurrent-delete"]++
		}
	}
	r.stats.Probes["plan-executions-compared"]++
	return ""
}

// quiescentPlanCheck: with no client activity left and the background idle
// the planner has no further work, and the number of mergeable segments is
// within its budget.
func (r *Run) quiescentPlanCheck() {
	if !r.p.PlanInv || r.k.Dir != "fs" {
		return
	}
	rd, err := r.w.Reader()
	if err != nil {
		return
	}
	infos := rd.VerifSnapshot().VerifSegmentInfos()
	_ = rd.Close()
	in := stubsOf(infos)
	o := r.planOptions()
	o.CalcBudget, o.ScoreSegments = nil, nil
	p, err := mergeplan.Plan(in, &o)
	if err != nil {
		r.fail("plan-error", "planner error at quiescence: "+err.Error())
		return
	}
	if p != nil && len(p.Tasks) > 0 {
		// Not a violation: the merger is only woken by a completed persist, so
		// after a slow event callback or after its own last merge it can be
		// idle with planner work pending until the next batch arrives. The
		// property promises boundedness while batches keep arriving (decided
		// on sizes only); here the situation is only counted.
		r.stats.Probes["idle-with-pending-plan-work"]++
		return
	}
	var eligibles, total, minLive int64
	minLive = 1 << 62
	for _, s := range in {
		if s.LiveSize() < minLive {
			minLive = s.LiveSize()
		}
		if s.LiveSize() < o.MaxSegmentSize/2 {
			eligibles++
			total += s.LiveSize()
		}
	}
	if len(in) > 1 {
		budget := mergeplan.CalcBudget(total, o.RaiseToFloorSegmentSize(minLive), &o)
		if int(eligibles) > budget {
			// unreachable when the planner returned no task above; kept as a
			// consistency check of the harness's own budget computation
			r.fail("harness", fmt.Sprintf("planner returned no task although %d mergeable segments exceed its budget %d", eligibles, budget))
			return
		}
		if int(eligibles) > r.maxEligible {
			r.maxEligible = int(eligibles)
		}
	}
	r.stats.Probes["quiescent-plan-checks"]++
	if len(r.batches) >= 100 {
		r.stats.Probes["quiescent-plan-checks-100plus-batches"]++
	}
}

// guardedPlan runs the real planner with a wall-clock deadline: the property
// says the planner terminates, and a planner that does not would otherwise
// only hit the driver's watchdog (harness trouble instead of a verdict).
// Only usable outside a synctest bubble (inside, time is simulated).
func guardedPlan(in []mergeplan.Segment, o *mergeplan.Options) (p *mergeplan.MergePlan, err error, timedOut bool) {
	type out struct {
		p   *mergeplan.MergePlan
		err error
	}
	ch := make(chan out, 1)
	go func() {
		defer func() {
			if pv := recover(); pv != nil {
				ch <- out{nil, fmt.Errorf("planner panicked: %v", pv)}
			}
		}()
		p, err := mergeplan.Plan(in, o)
		ch <- out{p, err}
	}()
	select {
	case r := <-ch:
		return r.p, r.err, false
	case <-time.After(5 * time.Second):
		return nil, nil, true
	}
}

// logBudget is an independent statement of "the planner's logarithmic
// budget": the number of segments of a staircase of tiers, MaxSegmentsPerTier
// wide, whose step size starts at the floor (or the smallest segment) and
// grows by TierGrowth, needed to cover total live documents - plus one tier
// of slack. It does not call the planner's own CalcBudget.
func logBudget(total, first int64, o *mergeplan.Options) int {
	if first < 1 {
		first = 1
	}
	per := o.MaxSegmentsPerTier
	if per < 1 {
		per = 1
	}
	g := o.TierGrowth
	if g < 1 {
		g = 1
	}
	n, step, covered := 0, float64(first), 0.0
	for covered < float64(total) && n < 1<<20 {
		covered += float64(per) * step
		n += per
		step *= g
		if g == 1 && n > int(total)+per {
			break
		}
	}
	return n + per
}

// ---- sizes-only simulation round the real planner ---------------------------

func c19SizesSpecial(t *testing.T, job *Job, res *Result) *Result {
	res.Stats.Probes = map[string]int{}
	res.Stats.Faults = map[string]int{}
	res.Extra = map[string]any{}
	rng := NewRNG(job.Seed)
	pick := func(vals ...int64) int64 { return vals[rng.Next()%uint64(len(vals))] }
	o := mergeplan.DefaultMergePlanOptions
	o.MaxSegmentsPerTier = int(pick(2, 3, 5, 10, 20))
	o.SegmentsPerMergeTask = int(pick(2, 3, 5, 10, 30))
	o.FloorSegmentSize = pick(1, 2, 10, 2000)
	o.MaxSegmentSize = pick(20, 100, 5000, 5000000)
	o.TierGrowth = float64(pick(2, 3, 10))
	if o.FloorSegmentSize >= 10 && rng.Next()%3 == 0 {
		// fractional growth factors (only with a floor of 10 or more: the
		// planner's steps are whole numbers, and the one tier of slack in
		// logBudget covers the truncation only when the first step is not
		// tiny)
		o.TierGrowth = []float64{1.5, 2.5, 1.25, 3.5}[rng.Next()%4]
	}
	o.ReclaimDeletesWeight = float64(pick(0, 1, 2, 3))
	var segs []*stubSeg
	nextID := uint64(1)
	steps := 200 + int(rng.Next()%1800)
	if job.Tier == "thorough" {
		steps = 2000 + int(rng.Next()%8000)
	}
	asIn := func() []mergeplan.Segment {
		in := make([]mergeplan.Segment, len(segs))
		for i, s := range segs {
			in[i] = s
		}
		return in
	}
	plans, tasks, maxSegs := 0, 0, 0
	fail := func(oracle, msg string) *Result {
		res.Violation = &Violation{Oracle: oracle, Msg: fmt.Sprintf("options %+v, %d segments: %s", optsDesc(&o), len(segs), msg)}
		return res
	}
	execute := func(p *mergeplan.MergePlan) {
		for _, t := range p.Tasks {
			var live int64
			drop := map[mergeplan.Segment]bool{}
			for _, s := range t.Segments {
				live += s.LiveSize()
				drop[s] = true
			}
			var keep []*stubSeg
			for _, s := range segs {
				if !drop[s] {
					keep = append(keep, s)
				}
			}
			segs = keep
			if live > 0 {
				segs = append(segs, &stubSeg{id: nextID, full: live, live: live})
				nextID++
			}
			tasks++
		}
	}
	planOnce := func() (*mergeplan.MergePlan, *Result) {
		in := asIn()
		p1, err, timedOut := guardedPlan(in, &o)
		if timedOut {
			res.Fatal = true // the planner goroutine cannot be stopped: this worker must be replaced
			var sizes []string
			for _, s := range segs {
				sizes = append(sizes, fmt.Sprintf("%x:%d/%d", s.id, s.live, s.full))
			}
			if len(sizes) > 40 {
				sizes = append(sizes[:40], "...")
			}
			return nil, fail("plan-terminates", fmt.Sprintf("mergeplan.Plan did not return within 5 s of wall clock on segments (id:live/full) %v", sizes))
		}
		if err != nil {
			return nil, fail("plan-error", err.Error())
		}
		p2, _ := mergeplan.Plan(in, &o)
		if planKey(p1) != planKey(p2) {
			return nil, fail("plan-deterministic", fmt.Sprintf("same input planned twice: [%s] then [%s]", planKey(p1), planKey(p2)))
		}
		if msg := checkPlan(in, &o, p1); msg != "" {
			return nil, fail("plan-well-formed", fmt.Sprintf("plan [%s]: %s", planKey(p1), msg))
		}
		if len(in) > 1 {
			// the same segments in another order must give the same tasks
			perm := append([]mergeplan.Segment(nil), in...)
			for i := len(perm) - 1; i > 0; i-- {
				j := int(rng.Next() % uint64(i+1))
				perm[i], perm[j] = perm[j], perm[i]
			}
			p3, _ := mergeplan.Plan(perm, &o)
			if planKey(p1) != planKey(p3) {
				return nil, fail("plan-deterministic", fmt.Sprintf("the same %d segments in another input order: [%s] instead of [%s]", len(in), planKey(p3), planKey(p1)))
			}
		}
		plans++
		return p1, nil
	}
	for step := 0; step < steps; step++ {
		switch v := rng.Next() % 10; {
		case v < 6: // a new small segment arrives (a batch)
			sz := int64(1 + rng.Next()%6)
			if rng.Next()%50 == 0 {
				sz = o.MaxSegmentSize + int64(rng.Next()%100) // beyond the maximum
			}
			if rng.Next()%20 == 0 {
				sz = 0
			}
			segs = append(segs, &stubSeg{id: nextID, full: sz, live: sz})
			nextID++
		case v < 8 && len(segs) > 0: // deletions
			s := segs[rng.Next()%uint64(len(segs))]
			if s.live > 0 {
				s.live -= int64(rng.Next() % uint64(s.live+1))
			}
		default: // a planning round, executed
			p, r := planOnce()
			if r != nil {
				return r
			}
			if p != nil {
				execute(p)
			}
		}
		if len(segs) > maxSegs {
			maxSegs = len(segs)
		}
	}
	// arrivals stop: repeated plan/execute must reach a fixpoint within a bound
	rounds := 0
	for ; rounds < 200; rounds++ {
		p, r := planOnce()
		if r != nil {
			return r
		}
		if p == nil || len(p.Tasks) == 0 {
			break
		}
		execute(p)
	}
	if rounds >= 200 {
		return fail("plan-fixpoint", "repeatedly applying the plans did not reach a state without further work within 200 rounds after arrivals stopped")
	}
	var eligibles, total, minLive int64
	minLive = 1 << 62
	for _, s := range segs {
		if s.live < minLive {
			minLive = s.live
		}
		if s.live < o.MaxSegmentSize/2 {
			eligibles++
			total += s.live
		}
	}
	if len(segs) > 1 {
		budget := mergeplan.CalcBudget(total, o.RaiseToFloorSegmentSize(minLive), &o)
		if int(eligibles) > budget {
			return fail("plan-budget", fmt.Sprintf("at the fixpoint %d mergeable segments remain for %d live documents; budget %d", eligibles, total, budget))
		}
		if lb := logBudget(total, o.RaiseToFloorSegmentSize(minLive), &o); int(eligibles) > lb {
			return fail("plan-budget", fmt.Sprintf("at the fixpoint %d mergeable segments remain for %d live documents: more than the logarithmic staircase bound %d (%d per tier, growth %g, first tier %d)", eligibles, total, lb, o.MaxSegmentsPerTier, o.TierGrowth, o.RaiseToFloorSegmentSize(minLive)))
		}
	}
	res.Extra["plans_checked"] = float64(plans)
	res.Extra["tasks_executed"] = float64(tasks)
	res.Extra["max_segments"] = float64(maxSegs)
	res.Stats.Probes["sizes-only-histories"]++
	if maxSegs >= 300 {
		res.Stats.Probes["sizes-only-300plus-segments"]++
	}
	res.Stats.SchedSig = mix64(job.Seed, uint64(plans))
	res.Stats.Interleaved = tasks > 0
	if job.Trace {
		res.Sample = map[string]any{"options": optsDesc(&o), "steps": steps, "plans": plans, "tasks_executed": tasks, "max_segments": maxSegs, "segments_at_fixpoint": len(segs), "fixpoint_rounds": rounds}
	}
	return res
}

func optsDesc(o *mergeplan.Options) string {
	return fmt.Sprintf("{perTier:%d maxSeg:%d growth:%g perTask:%d floor:%d reclaim:%g}", o.MaxSegmentsPerTier, o.MaxSegmentSize, o.TierGrowth, o.SegmentsPerMergeTask, o.FloorSegmentSize, o.ReclaimDeletesWeight)
}
