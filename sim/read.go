package sim

import (
	"context"
	"fmt"
	"sort"
	"strings"

	"github.com/blugelabs/bluge"
)

// DocOut is one document as a Reader exposes it.
type DocOut struct {
	ID     string            `json:"id"`
	UID    string            `json:"uid"`
	Fields map[string]string `json:"-"`
}

// Content is everything the basic oracle reads from a Reader: Count,
// match-all enumeration with stored fields, lookup by id.
type Content struct {
	Count uint64              `json:"count"`
	Docs  []DocOut            `json:"docs"`
	ByID  map[string][]string `json:"by_id,omitempty"`
	key   string
	queried map[string]bool // ids looked up by term (nil: none)
}

func (c *Content) UIDs() []string {
	rv := make([]string, len(c.Docs))
	for i, d := range c.Docs {
		rv[i] = d.UID
	}
	sort.Strings(rv)
	return rv
}

func (c *Content) Key() string {
	if c.key == "" {
		c.key = "{" + strings.Join(c.UIDs(), ",") + "}"
	}
	return c.key
}

func collect(r *bluge.Reader, q bluge.Query) ([]DocOut, error) {
	it, err := r.Search(context.Background(), bluge.NewAllMatches(q))
	if err != nil {
		return nil, err
	}
	var rv []DocOut
	for {
		m, err := it.Next()
		if err != nil {
			return nil, err
		}
		if m == nil {
			break
		}
		d := DocOut{Fields: map[string]string{}}
		err = m.VisitStoredFields(func(field string, value []byte) bool {
			switch field {
			case "_id":
				d.ID = string(value)
			case "uid":
				d.UID = string(value)
			}
			if _, dup := d.Fields[field]; dup {
				d.Fields[field] += "\x00" + string(value)
			} else {
				d.Fields[field] = string(value)
			}
			return true
		})
		if err != nil {
			return nil, err
		}
		rv = append(rv, d)
	}
	return rv, nil
}

// ReadAll reads a Reader completely. ids is the id space to look up by term.
func ReadAll(r *bluge.Reader, ids []string) (*Content, error) {
	c := &Content{}
	var err error
	c.Count, err = r.Count()
	if err != nil {
		return nil, fmt.Errorf("count: %w", err)
	}
	c.Docs, err = collect(r, bluge.NewMatchAllQuery())
	if err != nil {
		return nil, fmt.Errorf("match-all: %w", err)
	}
	sort.SliceStable(c.Docs, func(i, j int) bool { return c.Docs[i].UID < c.Docs[j].UID })
	if ids != nil {
		c.ByID = map[string][]string{}
		c.queried = map[string]bool{}
		for _, id := range ids {
			c.queried[id] = true
			ds, err := collect(r, bluge.NewTermQuery(id).SetField("_id"))
			if err != nil {
				return nil, fmt.Errorf("term _id:%s: %w", id, err)
			}
			if len(ds) == 0 {
				continue
			}
			var us []string
			for _, d := range ds {
				if d.ID != id {
					return nil, fmt.Errorf("term _id:%s returned a document with _id %q", id, d.ID)
				}
				us = append(us, d.UID)
			}
			sort.Strings(us)
			c.ByID[id] = us
		}
	}
	return c, nil
}

// CompareModel checks a Content against the abstract index, document by
// document. It returns "" when they agree.
func CompareModel(c *Content, m *Model, stored map[string]map[string]string) string {
	if int(c.Count) != len(m.Live) {
		return fmt.Sprintf("Count()=%d, abstract index has %d live documents (reader %s, model %s)", c.Count, len(m.Live), c.Key(), m.Key())
	}
	if c.Key() != m.Key() {
		return fmt.Sprintf("match-all enumerates %s, abstract index holds %s", c.Key(), m.Key())
	}
	for _, d := range c.Docs {
		exp := stored[d.UID]
		if exp == nil {
			return fmt.Sprintf("document uid=%s unknown to the workload", d.UID)
		}
		if len(exp) != len(d.Fields) {
			return fmt.Sprintf("document uid=%s stored fields %v, expected %v", d.UID, d.Fields, exp)
		}
		for k, v := range exp {
			if d.Fields[k] != v {
				return fmt.Sprintf("document uid=%s stored field %s=%q, expected %q", d.UID, k, d.Fields[k], v)
			}
		}
	}
	if c.ByID != nil {
		exp := m.ByID()
		if c.queried != nil {
			for id := range exp {
				if !c.queried[id] {
					delete(exp, id) // not looked up by term in this read
				}
			}
		}
		if len(exp) != len(c.ByID) {
			return fmt.Sprintf("lookup by _id finds ids %v, abstract index has %v", keys(c.ByID), keys(exp))
		}
		for id, us := range exp {
			if strings.Join(c.ByID[id], ",") != strings.Join(us, ",") {
				return fmt.Sprintf("lookup _id:%s finds %v, abstract index has %v", id, c.ByID[id], us)
			}
		}
	}
	return ""
}

func keys(m map[string][]string) []string {
	var rv []string
	for k := range m {
		rv = append(rv, k)
	}
	sort.Strings(rv)
	return rv
}

// SameContent compares two reads of the same reader.
func SameContent(a, b *Content) string {
	if a.Count != b.Count {
		return fmt.Sprintf("Count() %d then %d", a.Count, b.Count)
	}
	if a.Key() != b.Key() {
		return fmt.Sprintf("match-all %s then %s", a.Key(), b.Key())
	}
	for i := range a.Docs {
		if len(a.Docs[i].Fields) != len(b.Docs[i].Fields) {
			return fmt.Sprintf("stored fields of uid=%s changed", a.Docs[i].UID)
		}
		for k, v := range a.Docs[i].Fields {
			if b.Docs[i].Fields[k] != v {
				return fmt.Sprintf("stored field %s of uid=%s: %q then %q", k, a.Docs[i].UID, v, b.Docs[i].Fields[k])
			}
		}
	}
	if len(a.ByID) != len(b.ByID) {
		return fmt.Sprintf("lookup by _id: ids %v then %v", keys(a.ByID), keys(b.ByID))
	}
	for id, us := range a.ByID {
		if strings.Join(us, ",") != strings.Join(b.ByID[id], ",") {
			return fmt.Sprintf("lookup _id:%s: %v then %v", id, us, b.ByID[id])
		}
	}
	return ""
}

// CompareModelDocs checks only that every document of a Content carries the
// stored fields its uid was written with.
func CompareModelDocs(c *Content, stored map[string]map[string]string) string {
	if int(c.Count) != len(c.Docs) {
		return fmt.Sprintf("Count()=%d but match-all enumerates %d documents", c.Count, len(c.Docs))
	}
	for _, d := range c.Docs {
		exp := stored[d.UID]
		if exp == nil {
			return fmt.Sprintf("document uid=%s unknown to the workload", d.UID)
		}
		for k, v := range exp {
			if d.Fields[k] != v {
				return fmt.Sprintf("document uid=%s stored field %s=%q, expected %q", d.UID, k, d.Fields[k], v)
			}
		}
	}
	return ""
}
