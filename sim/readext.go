package sim

import (
	"context"
	"fmt"
	"sort"
	"strings"

	"github.com/blugelabs/bluge"
	"github.com/blugelabs/bluge/search"
	"github.com/blugelabs/bluge/search/aggregations"
)

func uidsOf(r *bluge.Reader, req bluge.SearchRequest) (string, *search.Bucket, error) {
	it, err := r.Search(context.Background(), req)
	if err != nil {
		return "", nil, err
	}
	var us []string
	for {
		m, err := it.Next()
		if err != nil {
			return "", nil, err
		}
		if m == nil {
			break
		}
		uid := ""
		_ = m.VisitStoredFields(func(f string, v []byte) bool {
			if f == "uid" {
				uid = string(v)
				return false
			}
			return true
		})
		us = append(us, uid)
	}
	return strings.Join(us, ","), it.Aggregations(), nil
}

// scoredOf renders uid:score of a query under the sort -_score,uid.
func scoredOf(r *bluge.Reader, q bluge.Query) (string, error) {
	it, err := r.Search(context.Background(), bluge.NewTopNSearch(1000, q).SortBy([]string{"-_score", "uid"}))
	if err != nil {
		return "", err
	}
	var ss []string
	for {
		m, err := it.Next()
		if err != nil {
			return "", err
		}
		if m == nil {
			break
		}
		uid := ""
		_ = m.VisitStoredFields(func(f string, v []byte) bool {
			if f == "uid" {
				uid = string(v)
				return false
			}
			return true
		})
		ss = append(ss, fmt.Sprintf("%s:%v", uid, m.Score))
	}
	return strings.Join(ss, ","), nil
}

// ReadExt performs the wider set of reads the reader-isolation oracle repeats
// on a held reader: document values through a sorted top-N search and a terms
// aggregation with a nested metric, a dictionary scan, phrase / boolean /
// conjunction / disjunction / numeric-range / prefix queries (the optimised
// bitmap paths included), and scored compound queries whose evaluation seeks
// backwards. The result maps a read's name to a canonical rendering.
func ReadExt(r *bluge.Reader, extra ...qSpec) map[string]string { return ReadExtRot(r, 0, extra...) }

// ReadExtRot performs the same reads starting with the rot-th one: a reader
// must give the same answers whatever it was asked before.
func ReadExtRot(r *bluge.Reader, rot int, extra ...qSpec) map[string]string {
	rv := map[string]string{}
	steps := extSteps(r, rv)
	// the run's own generated queries (all public query types, nested
	// booleans): match set and scores
	for i, q := range extra {
		i, q := i, q
		steps = append(steps, func() {
			s, err := scoredOf(r, q.Make())
			if err != nil {
				rv[fmt.Sprintf("q%d %s", i, q.Desc)] = "ERROR " + err.Error()
			} else {
				rv[fmt.Sprintf("q%d %s", i, q.Desc)] = s
			}
		})
	}
	if rot < 0 {
		rot = -rot
	}
	for i := range steps {
		steps[(i+rot)%len(steps)]()
	}
	return rv
}

func extSteps(r *bluge.Reader, rv map[string]string) []func() {
	put := func(name, val string, err error) {
		if err != nil {
			rv[name] = "ERROR " + err.Error()
		} else {
			rv[name] = val
		}
	}
	all := func(q bluge.Query) (string, error) {
		s, _, err := uidsOf(r, bluge.NewAllMatches(q))
		if err != nil {
			return "", err
		}
		us := strings.Split(s, ",")
		sort.Strings(us)
		return strings.Join(us, ","), nil
	}
	term := func(f, t string) bluge.Query { return bluge.NewTermQuery(t).SetField(f) }
	var steps []func()
	// sorted top-N (document values of num, tag, uid) with aggregations
	steps = append(steps, func() {
		top := bluge.NewTopNSearch(1000, bluge.NewMatchAllQuery()).SortBy([]string{"-num", "tag", "uid"})
		ta := aggregations.NewTermsAggregation(search.Field("tag"), 10)
		ta.AddAggregation("sum", aggregations.Sum(search.Field("num")))
		top.AddAggregation("tags", ta)
		top.AddAggregation("min", aggregations.Min(search.Field("num")))
		top.AddAggregation("max", aggregations.Max(search.Field("num")))
		s, b, err := uidsOf(r, top)
		put("topn-sorted", s, err)
		if err == nil && b != nil {
			parts := []string{fmt.Sprintf("count=%d", b.Count())}
			if tc, ok := b.Aggregations()["tags"].(search.BucketCalculator); ok {
				var bs []string
				for _, tb := range tc.Buckets() {
					sum := 0.0
					if m, ok := tb.Aggregations()["sum"].(search.MetricCalculator); ok {
						sum = m.Value()
					}
					bs = append(bs, fmt.Sprintf("%s:%d:%g", tb.Name(), tb.Count(), sum))
				}
				sort.Strings(bs)
				parts = append(parts, strings.Join(bs, ";"))
			}
			for _, n := range []string{"min", "max"} {
				if m, ok := b.Aggregations()[n].(search.MetricCalculator); ok {
					parts = append(parts, fmt.Sprintf("%s=%g", n, m.Value()))
				}
			}
			rv["aggregations"] = strings.Join(parts, " ")
		}
	})
	steps = append(steps, func() {
		s, err := all(bluge.NewMatchPhraseQuery("quick fox").SetField("body"))
		put("phrase", s, err)
	})
	steps = append(steps, func() {
		s, err := all(bluge.NewBooleanQuery().AddMust(term("body", "alpha")).AddMustNot(term("tag", "t1")).AddShould(term("body", "red")))
		put("boolean", s, err)
	})
	steps = append(steps, func() {
		s, err := all(bluge.NewBooleanQuery().AddMust(term("body", "red"), term("body", "blue")))
		put("conjunction", s, err)
	})
	steps = append(steps, func() {
		s, err := all(bluge.NewBooleanQuery().AddShould(term("body", "fox"), term("body", "dog"), term("tag", "t2")))
		put("disjunction", s, err)
	})
	steps = append(steps, func() {
		s, err := all(bluge.NewNumericRangeInclusiveQuery(0, 10, true, true).SetField("num"))
		put("numeric-range", s, err)
	})
	steps = append(steps, func() {
		s, err := all(bluge.NewPrefixQuery("g").SetField("body"))
		put("prefix", s, err)
	})
	// scored compound queries over one field: nested booleans with optional
	// clauses reached through Advance, repeated terms, a range as must
	steps = append(steps, func() {
		q := bluge.NewBooleanQuery().
			AddMust(bluge.NewNumericRangeInclusiveQuery(-5, 20, true, true).SetField("num"),
				bluge.NewBooleanQuery().AddMust(term("body", "alpha")).AddShould(term("body", "green"), term("body", "red"))).
			AddShould(term("body", "alpha"), term("body", "alpha"), bluge.NewMatchQuery("beta gamma").SetField("body"))
		s, err := scoredOf(r, q)
		put("scored-nested", s, err)
	})
	steps = append(steps, func() {
		q := bluge.NewBooleanQuery().
			AddMust(term("tag", "t0")).
			AddShould(bluge.NewMatchPhraseQuery("red green").SetField("body").SetSlop(1), term("body", "red"), term("body", "green"), bluge.NewPrefixQuery("b").SetField("body")).
			AddMustNot(term("body", "lazy"))
		s, err := scoredOf(r, q)
		put("scored-mixed", s, err)
	})
	steps = append(steps, func() {
		s, err := scoredOf(r, bluge.NewMatchQuery("alpha beta delta omega").SetField("body"))
		put("scored-match", s, err)
	})
	// dictionary scan of the text field: terms with counts (layout dependent,
	// but constant for one reader)
	steps = append(steps, func() {
		di, err := r.DictionaryIterator("body", nil, nil, nil)
		if err != nil {
			put("dictionary", "", err)
			return
		}
		defer di.Close()
		var ts []string
		for {
			e, err := di.Next()
			if err != nil {
				put("dictionary", "", err)
				return
			}
			if e == nil {
				rv["dictionary"] = strings.Join(ts, ",")
				return
			}
			ts = append(ts, fmt.Sprintf("%s/%d", e.Term(), e.Count()))
		}
	})
	return steps
}

func diffExt(a, b map[string]string) string {
	var ks []string
	for k := range a {
		ks = append(ks, k)
	}
	sort.Strings(ks)
	for _, k := range ks {
		if a[k] != b[k] {
			return fmt.Sprintf("%s answered %q at first and %q later", k, a[k], b[k])
		}
	}
	if len(a) != len(b) {
		return "the set of answered reads changed"
	}
	return ""
}
