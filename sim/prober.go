package sim

import (
	"bufio"
	"encoding/json"
	"fmt"
	"os"
	"os/exec"
	"runtime"
	"runtime/debug"
	"sort"
	"strings"
	"time"

	"github.com/blugelabs/bluge"
	"github.com/blugelabs/bluge/index"
)

// The recovery prober is a child process: the failures it looks for are not
// Go panics (a use-after-unmap is SIGSEGV, a wild length a fatal
// out-of-memory), so "the child died on this image" is itself the verdict.

type WireDoc struct {
	ID     string            `json:"id"`
	UID    string            `json:"uid"`
	Fields map[string][]byte `json:"f"`
}

type WireContent struct {
	Count uint64              `json:"count"`
	Docs  []WireDoc           `json:"docs"`
	ByID  map[string][]string `json:"by_id"`
}

func (w *WireContent) Content() *Content {
	c := &Content{Count: w.Count, ByID: w.ByID}
	for _, d := range w.Docs {
		do := DocOut{ID: d.ID, UID: d.UID, Fields: map[string]string{}}
		for k, v := range d.Fields {
			do.Fields[k] = string(v)
		}
		c.Docs = append(c.Docs, do)
	}
	sort.SliceStable(c.Docs, func(i, j int) bool { return c.Docs[i].UID < c.Docs[j].UID })
	if c.ByID == nil {
		c.ByID = map[string][]string{}
	}
	return c
}

func wireOf(c *Content) *WireContent {
	w := &WireContent{Count: c.Count, ByID: c.ByID}
	for _, d := range c.Docs {
		wd := WireDoc{ID: d.ID, UID: d.UID, Fields: map[string][]byte{}}
		for k, v := range d.Fields {
			wd.Fields[k] = []byte(v)
		}
		w.Docs = append(w.Docs, wd)
	}
	return w
}

type ProbeReq struct {
	Dir      string   `json:"dir"`
	SegVer   int      `json:"seg_ver"`
	MMap     bool     `json:"mmap"`
	IDs      []string `json:"ids"`
	Writer   bool     `json:"writer"`
	ProbeDoc *DocSpec `json:"probe_doc,omitempty"`
	Mem      bool     `json:"mem,omitempty"` // measure allocation during OpenReader
}

type ProbeResp struct {
	ReaderErr  string       `json:"reader_err,omitempty"`
	Content    *WireContent `json:"content,omitempty"`
	ReadErr    string       `json:"read_err,omitempty"`
	WriterErr  string       `json:"writer_err,omitempty"`
	BatchErr   string       `json:"batch_err,omitempty"`
	After      *WireContent `json:"after,omitempty"`
	CloseErr   string       `json:"close_err,omitempty"`
	Reopen     *WireContent `json:"reopen,omitempty"`
	ReopenErr  string       `json:"reopen_err,omitempty"`
	Panic      string       `json:"panic,omitempty"`
	AllocBytes uint64       `json:"alloc_bytes,omitempty"`
}

func probeConfig(req *ProbeReq) bluge.Config {
	cfg := bluge.DefaultConfigWithDirectory(func() index.Directory {
		fsd := index.NewFileSystemDirectory(req.Dir)
		if !req.MMap {
			fsd.SetLoadMMapFunc(index.LoadMMapNever)
		}
		return fsd
	})
	if req.SegVer == 2 {
		cfg = cfg.WithSegmentVersion(2)
	}
	return cfg
}

func probeOnce(req *ProbeReq) (resp *ProbeResp) {
	resp = &ProbeResp{}
	defer func() {
		if p := recover(); p != nil {
			resp.Panic = fmt.Sprintf("%v\n%s", p, debug.Stack())
		}
	}()
	cfg := probeConfig(req)
	var ms0, ms1 runtime.MemStats
	if req.Mem {
		runtime.ReadMemStats(&ms0)
	}
	rd, err := bluge.OpenReader(cfg)
	if req.Mem {
		runtime.ReadMemStats(&ms1)
		resp.AllocBytes = ms1.TotalAlloc - ms0.TotalAlloc
	}
	if err != nil {
		resp.ReaderErr = err.Error()
	} else {
		c, err := ReadAll(rd, req.IDs)
		if err != nil {
			resp.ReadErr = err.Error()
		} else {
			resp.Content = wireOf(c)
		}
		if err := rd.Close(); err != nil && resp.ReadErr == "" {
			resp.ReadErr = "close: " + err.Error()
		}
	}
	if !req.Writer {
		return resp
	}
	w, err := bluge.OpenWriter(cfg)
	if err != nil {
		resp.WriterErr = err.Error()
		return resp
	}
	settle := func() {
		// let the free-running writer settle (persist swap, follow-up
		// snapshot, merges), so that the outcome does not depend on how far
		// the background loops got: all counters unchanged for 5 polls.
		// Reads are done only on a settled writer: the bundled ice v2 format
		// shares an unsynchronised stored-field buffer between a merge and a
		// reader of the same segment (known finding, listed under C15/C04).
		iw := w.VerifIndexWriter()
		last, same := iw.Stats(), 0
		for i := 0; i < 10000 && same < 5; i++ {
			time.Sleep(300 * time.Microsecond)
			st := iw.Stats()
			if st == last && st.CurRootEpoch == st.LastPersistedEpoch {
				same++
			} else {
				same = 0
			}
			last = st
		}
	}
	if req.ProbeDoc != nil {
		b := bluge.NewBatch()
		b.Update(bluge.Identifier(req.ProbeDoc.ID), req.ProbeDoc.Bluge())
		if err := w.Batch(b); err != nil {
			resp.BatchErr = err.Error()
		} else {
			settle()
			r2, err := w.Reader()
			if err != nil {
				resp.BatchErr = "reader after batch: " + err.Error()
			} else {
				c, err := ReadAll(r2, req.IDs)
				if err != nil {
					resp.BatchErr = "read after batch: " + err.Error()
				} else {
					resp.After = wireOf(c)
				}
				_ = r2.Close()
			}
		}
	}
	settle()
	if err := w.Close(); err != nil {
		resp.CloseErr = err.Error()
	}
	// the batch was acknowledged (safe mode): it must be there after reopening
	r3, err := bluge.OpenReader(cfg)
	if err != nil {
		resp.ReopenErr = err.Error()
	} else {
		c, err := ReadAll(r3, req.IDs)
		if err != nil {
			resp.ReopenErr = "read: " + err.Error()
		} else {
			resp.Reopen = wireOf(c)
		}
		_ = r3.Close()
	}
	return resp
}

func proberMain() {
	debug.SetGCPercent(200)
	in := bufio.NewReaderSize(os.Stdin, 1<<20)
	out := bufio.NewWriter(os.Stdout)
	for {
		line, err := in.ReadBytes('\n')
		if len(line) > 1 {
			var req ProbeReq
			var resp *ProbeResp
			if jerr := json.Unmarshal(line, &req); jerr != nil {
				resp = &ProbeResp{Panic: "bad request: " + jerr.Error()}
			} else {
				resp = probeOnce(&req)
			}
			b, _ := json.Marshal(resp)
			out.WriteString("@@ ")
			out.Write(b)
			out.WriteString("\n")
			out.Flush()
		}
		if err != nil {
			return
		}
	}
}

// ---- parent side -----------------------------------------------------------

type Prober struct {
	cmd    *exec.Cmd
	in     *bufio.Writer
	out    *bufio.Reader
	stderr *strings.Builder
	dead   bool
	Probes int
}

var theProber *Prober

func getProber() *Prober {
	if theProber != nil && !theProber.dead {
		return theProber
	}
	bin := os.Getenv("BSIM_BIN")
	if bin == "" {
		bin = os.Args[0]
	}
	// RLIMIT_AS through the shell: a wild allocation dies instead of
	// swallowing the machine
	c := exec.Command("/bin/sh", "-c", "ulimit -v 8000000; exec \"$0\" -test.run XXX", bin)
	c.Env = append(os.Environ(), "BSIM_MODE=prober", "GOMAXPROCS=2")
	ip, _ := c.StdinPipe()
	op, _ := c.StdoutPipe()
	sb := &strings.Builder{}
	c.Stderr = &limitedWriter{sb: sb}
	if err := c.Start(); err != nil {
		panic("cannot start prober: " + err.Error())
	}
	theProber = &Prober{cmd: c, in: bufio.NewWriter(ip), out: bufio.NewReaderSize(op, 4<<20), stderr: sb}
	return theProber
}

type limitedWriter struct{ sb *strings.Builder }

func (l *limitedWriter) Write(p []byte) (int, error) {
	if l.sb.Len() < 64<<10 {
		l.sb.Write(p)
	}
	return len(p), nil
}

func stopProber() {
	if theProber != nil && !theProber.dead {
		theProber.dead = true
		_ = theProber.cmd.Process.Kill()
		_ = theProber.cmd.Wait()
	}
}

// Probe sends one request. died reports that the child died (its stderr tail
// is returned in msg).
func (p *Prober) Probe(req *ProbeReq) (resp *ProbeResp, died bool, msg string) {
	b, _ := json.Marshal(req)
	p.in.Write(b)
	p.in.WriteString("\n")
	if err := p.in.Flush(); err != nil {
		p.dead = true
		_ = p.cmd.Wait()
		return nil, true, p.stderr.String()
	}
	p.Probes++
	type rd struct {
		r   *ProbeResp
		err error
	}
	ch := make(chan rd, 1)
	go func() {
		for {
			line, err := p.out.ReadString('\n')
			if strings.HasPrefix(line, "@@ ") {
				var r ProbeResp
				if jerr := json.Unmarshal([]byte(line[3:]), &r); jerr != nil {
					ch <- rd{nil, jerr}
				} else {
					ch <- rd{&r, nil}
				}
				return
			}
			if err != nil {
				ch <- rd{nil, err}
				return
			}
		}
	}()
	select {
	case x := <-ch:
		if x.err != nil {
			p.dead = true
			_ = p.cmd.Process.Kill()
			_ = p.cmd.Wait()
			return nil, true, tailStr(p.stderr.String(), 3000)
		}
		return x.r, false, ""
	case <-time.After(60 * time.Second):
		p.dead = true
		_ = p.cmd.Process.Kill()
		_ = p.cmd.Wait()
		return nil, true, "prober did not answer within 60 s (hang while opening the image)\n" + tailStr(p.stderr.String(), 3000)
	}
}

func tailStr(s string, n int) string {
	if len(s) > n {
		return s[len(s)-n:]
	}
	return s
}
