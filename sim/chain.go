package sim

import (
	"fmt"
	"os"
	"sort"
	"strings"
)

// bits is a small growable bitset over batch numbers.
type bits []uint64

func (b bits) has(i int) bool {
	w := i / 64
	return w < len(b) && b[w]&(1<<uint(i%64)) != 0
}

func (b bits) with(i int) bits {
	w := i / 64
	n := len(b)
	if w >= n {
		n = w + 1
	}
	nb := make(bits, n)
	copy(nb, b)
	nb[w] |= 1 << uint(i%64)
	return nb
}

// key is canonical: trailing all-zero words are dropped, nothing else (an
// earlier version trimmed the characters '0' and '.' from the right of the
// hex rendering, so that {4} = "10." and {0} = "1." collided).
func (b bits) key() string {
	n := len(b)
	for n > 0 && b[n-1] == 0 {
		n--
	}
	var sb strings.Builder
	for _, w := range b[:n] {
		fmt.Fprintf(&sb, "%x.", w)
	}
	return sb.String()
}

func (b bits) list() []int {
	var rv []int
	for w, v := range b {
		for i := 0; i < 64; i++ {
			if v&(1<<uint(i)) != 0 {
				rv = append(rv, w*64+i)
			}
		}
	}
	return rv
}

// cand is one explanation of what has been observed so far: an abstract
// index and the set of batches applied to reach it.
type cand struct {
	m       *Model
	applied bits
}

func (c cand) key() string { return c.m.Key() + "|" + c.applied.key() }

// chainEntry is an abstract state the index provably or possibly went
// through, with the window at whose end it was (first) explained.
type chainEntry struct {
	Win     int
	Key     string
	Applied bits
}

// Chain tracks the set of explanations (the observed applied order is never
// assumed from invocation order).
type Chain struct {
	cands    []cand
	inflight map[int]*BatchSpec // invoked, not yet known to be applied in every explanation
	entries  []chainEntry
	seen     map[string]bool
	steps    int
	multi    int // observations explained only by >1 batch in one step
}

func NewChain(start *Model) *Chain {
	c := &Chain{inflight: map[int]*BatchSpec{}, seen: map[string]bool{}}
	c.cands = []cand{{m: start}}
	c.addEntry(0, start.Key(), nil)
	return c
}

func (c *Chain) addEntry(win int, key string, applied bits) {
	k := key + "|" + applied.key()
	if c.seen[k] {
		return
	}
	c.seen[k] = true
	c.entries = append(c.entries, chainEntry{Win: win, Key: key, Applied: applied})
}

func (c *Chain) Invoke(b *BatchSpec) { c.inflight[b.N] = b }

// Observe explains an observed content. must lists batches whose call has
// returned: every explanation must contain them. It returns "" or the reason
// no explanation exists.
func (c *Chain) Observe(win int, obsKey string, must []int) string {
	var next []cand
	nextSeen := map[string]bool{}
	visited := map[string]bool{}
	ids := make([]int, 0, len(c.inflight))
	for n := range c.inflight {
		ids = append(ids, n)
	}
	sort.Ints(ids)
	var path []cand
	var dfs func(cur cand, depth int)
	dfs = func(cur cand, depth int) {
		k := cur.key()
		if visited[k] {
			return
		}
		visited[k] = true
		c.steps++
		path = append(path, cur)
		ok := cur.m.Key() == obsKey
		if ok {
			for _, n := range must {
				if !cur.applied.has(n) {
					ok = false
					break
				}
			}
		}
		if ok {
			if !nextSeen[k] {
				nextSeen[k] = true
				next = append(next, cur)
			}
			for _, p := range path {
				c.addEntry(win, p.m.Key(), p.applied)
			}
			if depth > 1 {
				c.multi++
			}
		}
		for _, n := range ids {
			if cur.applied.has(n) {
				continue
			}
			dfs(cand{m: cur.m.Apply(c.inflight[n]), applied: cur.applied.with(n)}, depth+1)
		}
		path = path[:len(path)-1]
	}
	for _, cd := range c.cands {
		// visited is shared across start candidates on purpose: a state
		// reached from one start need not be re-expanded from another, but
		// path recording then misses some intermediates; re-run per start.
		visited = map[string]bool{}
		dfs(cd, 0)
	}
	if len(next) == 0 {
		var fl []string
		for _, n := range ids {
			fl = append(fl, c.inflight[n].String())
		}
		var cs []string
		for _, cd := range c.cands {
			cs = append(cs, cd.m.Key())
		}
		return fmt.Sprintf("reader content %s is not the abstract index after any atomic application of in-flight batches %v (returned, must be included: %v) to %v",
			obsKey, fl, must, cs)
	}
	if p := os.Getenv("BSIM_CHAINDBG"); p != "" { // debugging aid: explanations after every observation, appended to the named file
		if f, err := os.OpenFile(p, os.O_APPEND|os.O_CREATE|os.O_WRONLY, 0644); err == nil {
			fmt.Fprintf(f, "CHAIN w%d obs=%s must=%v inflight=%v\n", win, obsKey, must, ids)
			for _, cd := range next {
				fmt.Fprintf(f, "   cand %s applied=%v\n", cd.m.Key(), cd.applied.list())
			}
			f.Close()
		}
	}
	c.cands = next
	// batches applied in every explanation are no longer in flight
	for _, n := range ids {
		all := true
		for _, cd := range c.cands {
			if !cd.applied.has(n) {
				all = false
				break
			}
		}
		if all {
			delete(c.inflight, n)
		}
	}
	return ""
}

// Current returns one explanation's abstract index (the first).
func (c *Chain) Current() *Model { return c.cands[0].m }

// Unique reports whether the explanation is unique.
func (c *Chain) Unique() bool { return len(c.cands) == 1 }

func init() {
	// the explanation search relies on distinct batch sets having distinct keys
	seen := map[string]int{}
	for i := 0; i < 200; i++ {
		k := bits(nil).with(i).key()
		if j, dup := seen[k]; dup {
			panic(fmt.Sprintf("bits.key collision between {%d} and {%d}", j, i))
		}
		seen[k] = i
	}
	if bits(nil).with(3).with(70).key() == bits(nil).with(70).key() || (bits{5, 0, 0}).key() != (bits{5}).key() {
		panic("bits.key is not canonical")
	}
}
