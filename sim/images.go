package sim

import (
	"fmt"
	"os"
	"path/filepath"
	"sort"
	"strings"
)

// Image is the durable state of the directory at one crash instant.
type Image struct {
	Files   map[string][]byte
	OpIdx   int // boundary after operation OpIdx; for torn variants the operation in flight
	Win     int
	Variant string // "" = operation boundary
	Desc    string
	Snaps   int  // snapshot persists completed at this instant
	InSnap  bool // the in-flight file is a snapshot
	Torn    string
}

func cloneFiles(m map[string][]byte) map[string][]byte {
	c := make(map[string][]byte, len(m))
	for k, v := range m {
		c[k] = v
	}
	return c
}

func imageHash(m map[string][]byte) uint64 {
	names := make([]string, 0, len(m))
	for n := range m {
		names = append(names, n)
	}
	sort.Strings(names)
	h := uint64(1469598103934665603)
	for _, n := range names {
		h = mix64(h, hashStr(n))
		h = mix64(h, hashStr(string(m[n])))
	}
	return h
}

type imageOpts struct {
	torn      bool // torn variants of the in-flight persist
	everyK    bool // every prefix length of snapshot files
	rmSubsets bool
	dense     bool
	rng       *RNG
}

func prefixPoints(n int, all, dense bool) []int {
	if all {
		ks := make([]int, n)
		for i := range ks {
			ks[i] = i
		}
		return ks
	}
	set := map[int]bool{}
	pts := []int{0, 1, 3, 5, n / 2, n - 5, n - 4, n - 1}
	if dense {
		pts = []int{0, 1, 2, 3, 4, 5, 8, 9, 10, 11, n / 2, n - 9, n - 5, n - 4, n - 3, n - 2, n - 1}
	}
	for _, k := range pts {
		if k >= 0 && k < n {
			set[k] = true
		}
	}
	var ks []int
	for k := range set {
		ks = append(ks, k)
	}
	sort.Ints(ks)
	return ks
}

// enumerateImages turns a directory trace into the crash images of the run:
// every boundary after a mutating operation plus, for the persist in flight,
// torn variants (prefix, zero-filled full length, prefix + stale tail of an
// older file of that name), plus subsets of each unordered remove group.
func enumerateImages(ops []*DirOp, start map[string][]byte, o imageOpts) []Image {
	var out []Image
	seen := map[uint64]bool{}
	cur := cloneFiles(start)
	snaps := 0
	for name := range start {
		if strings.HasSuffix(name, ".snp") {
			snaps++ // an inherited snapshot counts as completed (forks start from recovered images)
		}
	}
	add := func(im Image) {
		h := mix64(imageHash(im.Files), uint64(im.Snaps))
		if seen[h] {
			return
		}
		seen[h] = true
		out = append(out, im)
	}
	add(Image{Files: cloneFiles(cur), OpIdx: -1, Win: 0, Desc: "initial", Snaps: snaps})
	i := 0
	for i < len(ops) {
		op := ops[i]
		switch op.Op {
		case "persist":
			name := fileName(op.Kind, op.ID)
			final := op.Data
			if o.torn && final != nil && op.Err == "" {
				isSnap := op.Kind == ".snp"
				mk := func(variant string, content []byte) {
					f := cloneFiles(cur)
					f[name] = content
					add(Image{Files: f, OpIdx: op.Idx, Win: op.Win, Variant: variant, Desc: fmt.Sprintf("crash during persist of %s: %s", name, variant), Snaps: snaps, InSnap: isSnap, Torn: name})
				}
				pts := prefixPoints(len(final), o.everyK && isSnap && len(final) <= 300, o.dense)
				if !isSnap {
					// a torn segment file is referenced by no completed snapshot
					pts = []int{0, len(final) / 2, len(final) - 1}
				}
				for _, k := range pts {
					if k >= 0 && k < len(final) {
						mk(fmt.Sprintf("prefix:%d", k), final[:k])
					}
				}
				mk("zero-filled", make([]byte, len(final)))
				if op.PrevExisted && len(op.Prev) > 0 {
					for _, k := range prefixPoints(len(final), false, o.dense) {
						if k < len(op.Prev) {
							c := append(append([]byte(nil), final[:k]...), op.Prev[k:]...)
							mk(fmt.Sprintf("stale-tail:%d", k), c)
						}
					}
				}
			}
			if final == nil {
				delete(cur, name)
			} else {
				cur[name] = final
			}
			if op.Kind == ".snp" && op.Err == "" && final != nil {
				snaps++
			}
			add(Image{Files: cloneFiles(cur), OpIdx: op.Idx, Win: op.Win, Desc: fmt.Sprintf("after persist of %s", name), Snaps: snaps})
			i++
		case "remove":
			// collect the group
			j := i
			var grp []*DirOp
			for j < len(ops) && ops[j].Op == "remove" && ops[j].Group == op.Group && op.Group != 0 {
				grp = append(grp, ops[j])
				j++
			}
			if len(grp) == 0 {
				grp = []*DirOp{op}
				j = i + 1
			}
			var eff []*DirOp
			for _, g := range grp {
				if g.Err == "" {
					eff = append(eff, g)
				}
			}
			base := cloneFiles(cur)
			// executed order: every prefix
			for _, g := range eff {
				delete(cur, fileName(g.Kind, g.ID))
				add(Image{Files: cloneFiles(cur), OpIdx: g.Idx, Win: g.Win, Desc: "after remove of " + fileName(g.Kind, g.ID), Snaps: snaps})
			}
			// other subsets the random map order could have produced:
			// snapshot removals happen first and in order, then any subset
			// of the segment removals
			if o.rmSubsets && len(eff) > 1 {
				var snapsRm, segsRm []*DirOp
				for _, g := range eff {
					if g.Kind == ".snp" {
						snapsRm = append(snapsRm, g)
					} else {
						segsRm = append(segsRm, g)
					}
				}
				if len(segsRm) > 1 {
					nsub := 1 << uint(len(segsRm))
					masks := []int{}
					if len(segsRm) <= 4 {
						for m := 1; m < nsub-1; m++ {
							masks = append(masks, m)
						}
					} else if o.rng != nil {
						for c := 0; c < 8; c++ {
							masks = append(masks, int(o.rng.Next()%uint64(nsub)))
						}
					}
					for _, m := range masks {
						f := cloneFiles(base)
						for _, g := range snapsRm {
							delete(f, fileName(g.Kind, g.ID))
						}
						for b, g := range segsRm {
							if m&(1<<uint(b)) != 0 {
								delete(f, fileName(g.Kind, g.ID))
							}
						}
						last := eff[len(eff)-1]
						add(Image{Files: f, OpIdx: last.Idx, Win: last.Win, Variant: fmt.Sprintf("remove-subset:%b", m), Desc: "crash inside a clean-up, other removal order", Snaps: snaps})
					}
				}
			}
			i = j
		default:
			i++
		}
	}
	return out
}

func materialize(dir string, im *Image, stalePid bool) error {
	if err := os.MkdirAll(dir, 0700); err != nil {
		return err
	}
	for n, b := range im.Files {
		if err := os.WriteFile(filepath.Join(dir, n), b, 0600); err != nil {
			return err
		}
	}
	if stalePid {
		_ = os.WriteFile(filepath.Join(dir, "bluge.pid"), []byte("99999\n"), 0600)
	}
	return nil
}

// ---- the crash oracle ------------------------------------------------------

type crashStats struct {
	Images     int            `json:"images"`
	ByVariant  map[string]int `json:"by_variant"`
	WriterOpen int            `json:"writer_opens"`
	NoSnapshot int            `json:"images_without_completed_snapshot"`
	Recovered  map[string]int `json:"-"`
}

// ackedBefore lists the batches acknowledged strictly before window w.
func (r *Run) ackedBefore(w int) []int {
	var rv []int
	for n, aw := range r.acks {
		if aw < w {
			rv = append(rv, n)
		}
	}
	sort.Ints(rv)
	return rv
}

// checkImage recovers one image in the prober and applies the C02/C03 oracle.
func (r *Run) checkImage(im *Image, idx int, writer bool, cs *crashStats) *Violation {
	dir := filepath.Join(scratch(), fmt.Sprintf("img-%d-%d", runCounter, idx))
	defer os.RemoveAll(dir)
	if err := materialize(dir, im, true); err != nil {
		return &Violation{Oracle: "harness", Msg: "cannot materialise image: " + err.Error()}
	}
	probeDoc := &DocSpec{ID: "zz-probe", UID: fmt.Sprintf("probe.%d", idx), Body: "probe alpha", Num: 1, Tag: "t0", Day: 1}
	req := &ProbeReq{Dir: dir, SegVer: r.k.SegVer, MMap: r.k.MMap, IDs: append(append([]string(nil), r.idspace...), "zz-probe"), Writer: writer, ProbeDoc: probeDoc}
	resp, died, msg := getProber().Probe(req)
	cs.Images++
	v := im.Variant
	if k := strings.IndexByte(v, ':'); k >= 0 {
		v = v[:k]
	}
	if v == "" {
		v = "boundary"
	}
	cs.ByVariant[v]++
	where := fmt.Sprintf("crash image #%d (%s; after directory operation %d, window %d, %d files)", idx, im.Desc, im.OpIdx, im.Win, len(im.Files))
	if died {
		return &Violation{Oracle: "recovery-process-died", Msg: where + ": the process opening the directory died: " + tailStr(msg, 1500), Win: im.Win}
	}
	if resp.Panic != "" {
		return &Violation{Oracle: "recovery-panic", Msg: where + ": opening the directory panicked: " + tailStr(resp.Panic, 1500), Win: im.Win}
	}
	acked := r.ackedBefore(im.Win)
	if resp.ReaderErr != "" {
		if im.Snaps > 0 {
			return &Violation{Oracle: "recovery-open-failed", Msg: fmt.Sprintf("%s: OpenReader failed although %d snapshot(s) had been completely persisted: %s", where, im.Snaps, resp.ReaderErr), Win: im.Win}
		}
		cs.NoSnapshot++
		if len(acked) > 0 {
			return &Violation{Oracle: "durability", Msg: fmt.Sprintf("%s: batches %v were acknowledged before this instant but no snapshot can be opened: %s", where, acked, resp.ReaderErr), Win: im.Win}
		}
		return nil
	}
	if resp.ReadErr != "" {
		return &Violation{Oracle: "recovery-read-failed", Msg: where + ": reading the recovered index failed: " + resp.ReadErr, Win: im.Win}
	}
	c := resp.Content.Content()
	delete(c.ByID, "zz-probe")
	if vio := r.explainRecovered(c, im, acked, where); vio != nil {
		return vio
	}
	r.recovered[idx] = c
	if !writer {
		return nil
	}
	cs.WriterOpen++
	if resp.WriterErr != "" {
		return &Violation{Oracle: "recovery-open-failed", Msg: where + ": OpenWriter failed on a directory OpenReader could open: " + resp.WriterErr, Win: im.Win}
	}
	if resp.BatchErr != "" {
		return &Violation{Oracle: "recovery-continue", Msg: where + ": the recovered writer did not accept a further batch: " + resp.BatchErr, Win: im.Win}
	}
	wantAfter := c.UIDs()
	wantAfter = append(wantAfter, probeDoc.UID)
	sort.Strings(wantAfter)
	wantKey := "{" + strings.Join(wantAfter, ",") + "}"
	if resp.After == nil || resp.After.Content().Key() != wantKey {
		got := "<nil>"
		if resp.After != nil {
			got = resp.After.Content().Key()
		}
		return &Violation{Oracle: "recovery-continue", Msg: fmt.Sprintf("%s: after one more batch the recovered writer shows %s, expected %s", where, got, wantKey), Win: im.Win}
	}
	if resp.CloseErr != "" {
		return &Violation{Oracle: "recovery-continue", Msg: where + ": Close of the recovered writer failed: " + resp.CloseErr, Win: im.Win}
	}
	if resp.ReopenErr != "" {
		return &Violation{Oracle: "recovery-repeat", Msg: where + ": after recovery, one acknowledged batch and Close the directory does not open: " + resp.ReopenErr, Win: im.Win}
	}
	if got := resp.Reopen.Content().Key(); got != wantKey {
		return &Violation{Oracle: "recovery-repeat", Msg: fmt.Sprintf("%s: after recovery, one acknowledged batch and Close the directory holds %s, expected %s", where, got, wantKey), Win: im.Win}
	}
	return nil
}

// explainRecovered: the recovered content must be one abstract state the
// index went through (chain entry), not later than the crash, containing
// every batch acknowledged before the crash.
func (r *Run) explainRecovered(c *Content, im *Image, acked []int, where string) *Violation {
	key := c.Key()
	if msg := CompareModelDocs(c, r.stored); msg != "" {
		return &Violation{Oracle: "recovery-content", Msg: where + ": " + msg, Win: im.Win}
	}
	var sameKey, lacking []string
	for _, e := range r.chain.entries {
		if e.Key != key {
			continue
		}
		if e.Win > im.Win {
			sameKey = append(sameKey, fmt.Sprintf("state of window %d (later than the crash)", e.Win))
			continue
		}
		ok := true
		for _, n := range acked {
			if !e.Applied.has(n) {
				ok = false
				if b := fmt.Sprintf("B%d", n); !strings.Contains(strings.Join(lacking, " ")+" ", b+" ") {
					lacking = append(lacking, b)
				}
				break
			}
		}
		if ok {
			// id lookups must agree with the documents themselves
			byid := map[string][]string{}
			for _, d := range c.Docs {
				byid[d.ID] = append(byid[d.ID], d.UID)
			}
			for id, us := range byid {
				sort.Strings(us)
				if strings.Join(us, ",") != strings.Join(c.ByID[id], ",") {
					return &Violation{Oracle: "recovery-content", Msg: fmt.Sprintf("%s: lookup _id:%s finds %v but the documents with that id are %v", where, id, c.ByID[id], us), Win: im.Win}
				}
			}
			return nil
		}
	}
	if len(lacking) > 0 {
		return &Violation{Oracle: "durability", Msg: fmt.Sprintf("%s: recovered index %s is an earlier state that lacks acknowledged batch(es) %v (acknowledged before the crash: %v)", where, key, lacking, acked), Win: im.Win}
	}
	var states []string
	for _, e := range r.chain.entries {
		if e.Win <= im.Win {
			states = append(states, e.Key)
		}
	}
	if len(states) > 6 {
		states = states[len(states)-6:]
	}
	return &Violation{Oracle: "recovery-prefix", Msg: fmt.Sprintf("%s: recovered index %s is not the abstract index after any prefix of the applied batches (%v; last states before the crash: %v)", where, key, sameKey, states), Win: im.Win}
}

// crashPostRun enumerates and checks all crash images of a finished run.
func crashPostRun(r *Run, res *Result) {
	if r.k.Dir != "fs" || r.trace == nil {
		return
	}
	thorough := r.p.Tier == "thorough"
	o := imageOpts{torn: r.p.Torn, everyK: thorough, dense: thorough, rmSubsets: true, rng: NewRNG(hashStr(fmt.Sprint(res.Seed, len(r.trace.Ops))))}
	ims := enumerateImages(r.trace.Ops, r.startImage, o)
	cs := &crashStats{ByVariant: map[string]int{}}
	// the free-running writer probe (open, one batch, settle, close, reopen)
	// costs tens of ms; it is a sample (the deterministic continuation after
	// recovery is the forked simulated run): a capped number per run, half
	// of them on images whose torn file is a snapshot
	capW := 10
	if r.p.ForkDepth > 0 {
		capW = 24
	}
	if thorough {
		capW *= 3
	}
	wantW := map[int]bool{}
	var tornIdx, otherIdx []int
	for i := range ims {
		if ims[i].InSnap {
			tornIdx = append(tornIdx, i)
		} else {
			otherIdx = append(otherIdx, i)
		}
	}
	for _, lst := range [][]int{tornIdx, otherIdx} {
		n := capW / 2
		if n > len(lst) {
			n = len(lst)
		}
		for k := 0; k < n; k++ {
			wantW[lst[(k*len(lst))/n+int(o.rng.Next()%uint64((len(lst)+n-1)/n))%((len(lst)+n-1)/n)%len(lst)]] = true
		}
	}
	for i := range ims {
		if overTime(res) {
			break
		}
		if v := r.checkImage(&ims[i], i, wantW[i], cs); v != nil {
			res.Violation = v
			if res.Extra == nil {
				res.Extra = map[string]any{}
			}
			res.Extra["image_index"] = i
			res.Extra["image_desc"] = ims[i].Desc
			if r.t.trace {
				keepImage(&ims[i], res)
			}
			break
		}
	}
	r.stats.Images = cs.Images
	res.Stats.Images = cs.Images
	if res.Extra == nil {
		res.Extra = map[string]any{}
	}
	for k, n := range cs.ByVariant {
		res.Extra["images_"+k] = float64(n)
	}
	res.Extra["images_writer_opened"] = float64(cs.WriterOpen)
	res.Extra["images_without_completed_snapshot"] = float64(cs.NoSnapshot)
	if res.Violation == nil && r.p.ForkDepth > r.depth+1 && len(ims) > 0 {
		forkFromImages(r, res, ims, o.rng)
	}
}

// keepImage stores the witnessing image next to the replay files.
func keepImage(im *Image, res *Result) {
	base := os.Getenv("VERIF_DIR")
	if base == "" {
		base = "/verif"
	}
	dir := filepath.Join(base, "replays", fmt.Sprintf("image-%s-%d", res.Check, res.Seed))
	_ = os.RemoveAll(dir)
	if err := materialize(dir, im, false); err == nil {
		res.Extra["image_dir"] = dir
	}
}

// explainDiskRead: a Reader opened from the live directory holds some abstract
// state the index went through, containing every batch acknowledged before it
// was opened.
func (r *Run) explainDiskRead(c *Content, win int) string {
	if msg := CompareModelDocs(c, r.stored); msg != "" {
		return msg
	}
	acked := r.ackedBefore(win)
	key := c.Key()
	var lacking []int
	for _, e := range r.chain.entries {
		if e.Key != key {
			continue
		}
		ok := true
		for _, n := range acked {
			if !e.Applied.has(n) {
				ok = false
				lacking = append(lacking, n)
				break
			}
		}
		if ok {
			return ""
		}
	}
	if len(lacking) > 0 {
		return fmt.Sprintf("a Reader opened from the directory in window %d holds %s, a state that lacks acknowledged batch(es) %v", win, key, lacking)
	}
	return fmt.Sprintf("a Reader opened from the directory in window %d holds %s, which is not the abstract index after any prefix of the applied batches", win, key)
}
