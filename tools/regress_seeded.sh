#!/bin/bash
# regress_seeded.sh [ids...]: runs, for every kept seeded change (or the given ones), the check named first in its
# meta.json caught_by against /repo with the change applied (undone straight afterwards) and reports CAUGHT / MISSED.
cd /verif || exit 2
ids="$@"; [ -n "$ids" ] || ids=$(ls seeded | grep -v README)
for n in $ids; do
  c=$(python3 -c "import json;print((json.load(open('seeded/$n/meta.json'))['caught_by'] or [''])[0])")
  if [ -z "$c" ]; then echo "$n OPEN (no check catches it yet; see seeded/README.md)"; continue; fi
  s=$(date +%s)
  out=$(bash tools/try_seeded.sh "$n" "$c" 2>&1); echo "$out" > /tmp/regress_$n.out
  e=$(date +%s)
  if echo "$out" | grep -q "^VIOLATION property=$c"; then
    echo "$n $c CAUGHT $((e-s))s $(echo "$out" | grep '^violation:' | head -1 | cut -c1-140)"
  else
    echo "$n $c MISSED $((e-s))s $(echo "$out" | tail -1 | cut -c1-140)"
  fi
  rm -f replays/*.json.tmp
done
git -C /repo status --short
