package sim

import "github.com/blugelabs/bluge/index/mergeplan"

func armOSFault(t *DirTrace, f string) {}
func disarmOSFault(t *DirTrace)        {}

func (r *Run) installPlanMonitors(o *mergeplan.Options) {}
func (r *Run) dirInvariants(evs []*Event)              {}
