// vcheck is the driver of the bluge deterministic simulator: it rebuilds the
// simulator from /repo's working tree, fans seeds over worker processes,
// confirms, minimises and replays violations, matches known findings and
// writes the evidence file.
//
// Exit codes: 0 property held on everything explored; 1 VIOLATION; 2 build,
// self-test, watchdog or other harness trouble (never a VIOLATION).
package main

import (
	"bytes"
	"bufio"
	"encoding/json"
	"flag"
	"fmt"
	"os"
	"os/exec"
	"path/filepath"
	"regexp"
	"runtime"
	"sort"
	"strconv"
	"strings"
	"sync"
	"time"
)

// verifDir is where this copy of the machinery lives: /verif for the
// registered commands; a snapshot directory when started from one (vp run).
var verifDir = func() string {
	if d := os.Getenv("VERIF_DIR"); d != "" {
		return d
	}
	return "/verif"
}()

type Job struct {
	ID    int    `json:"id"`
	Check string `json:"check"`
	Tier  string `json:"tier"`
	// HashOnly: determinism self-test: the scheduled run only, no post-run
	// enumerations (their sampling is bounded by wall-clock time)
	HashOnly bool     `json:"hash_only,omitempty"`
	Seed     uint64   `json:"seed"`
	Tape     []uint32 `json:"tape,omitempty"`
	Replay   bool     `json:"replay,omitempty"`
	Trace    bool     `json:"trace,omitempty"`
	Variant  string   `json:"variant,omitempty"`
}

type Violation struct {
	Oracle string `json:"oracle"`
	Msg    string `json:"msg"`
	Win    int    `json:"win"`
}

type RunStats struct {
	Windows      int            `json:"windows"`
	DirOps       int            `json:"dir_ops"`
	Batches      int            `json:"batches"`
	MonitorReads int            `json:"monitor_reads"`
	SimMillis    int64          `json:"sim_ms"`
	Probes       map[string]int `json:"probes"`
	Faults       map[string]int `json:"faults"`
	SchedSig     uint64         `json:"sched_sig"`
	Interleaved  bool           `json:"interleaved"`
	ChainSteps   int            `json:"chain_steps"`
	Images       int            `json:"images"`
}

type Result struct {
	ID           int                    `json:"id"`
	Check        string                 `json:"check"`
	Seed         uint64                 `json:"seed"`
	Violation    *Violation             `json:"violation,omitempty"`
	Harness      string                 `json:"harness_error,omitempty"`
	BudgetStop   bool                   `json:"budget_stop,omitempty"`
	Stats        RunStats               `json:"stats"`
	StateSigs    []uint64               `json:"state_sigs,omitempty"`
	Tape         []uint32               `json:"tape,omitempty"`
	Knobs        map[string]interface{} `json:"knobs,omitempty"`
	Ops          []string               `json:"ops,omitempty"`
	Sched        []string               `json:"sched,omitempty"`
	LogTail      []string               `json:"log_tail,omitempty"`
	Labels       []string               `json:"labels,omitempty"`
	LogHash      string                 `json:"log_hash,omitempty"`
	Sample       interface{}            `json:"sample,omitempty"`
	Extra        map[string]interface{} `json:"extra,omitempty"`
	Fatal        bool                   `json:"fatal,omitempty"`
	Observations []Violation            `json:"observations,omitempty"`
	died         bool
	stderr       string
}

func env() []string {
	e := os.Environ()
	e = append(e, "GOFLAGS=-mod=mod", "GOPROXY=off", "GOSUMDB=off", "GOTOOLCHAIN=local")
	return e
}

func fatal2(format string, a ...interface{}) {
	fmt.Fprintf(os.Stderr, "vcheck: "+format+"\n", a...)
	os.Exit(2)
}

// ---- build ---------------------------------------------------------------

func goroot() string {
	out, err := exec.Command("go1.26.8", "env", "GOROOT").Output()
	if err != nil {
		fatal2("go1.26.8 not runnable: %v", err)
	}
	return strings.TrimSpace(string(out))
}

// build compiles the simulator against /repo's working tree. For scratch
// experiments only (background sweeps, trying a change in a worktree) the
// environment may redirect it: VCHECK_REPO=<dir> builds against that copy of
// bluge through an alternative module file, VCHECK_BUILD=<dir> puts the
// outputs elsewhere. The registered commands set neither.
func build(race bool) string {
	bdir := filepath.Join(verifDir, "build")
	if d := os.Getenv("VCHECK_BUILD"); d != "" {
		bdir = d
	}
	_ = os.MkdirAll(bdir, 0755)
	ov := filepath.Join(bdir, "overlay")
	cmd := exec.Command("python3", filepath.Join(verifDir, "overlay/gen_overlay.py"), goroot(), ov)
	if out, err := cmd.CombinedOutput(); err != nil {
		fatal2("overlay generation failed: %v\n%s", err, out)
	}
	bin := filepath.Join(bdir, "bsim.test")
	args := []string{"test", "-c", "-tags", "verif", "-overlay", filepath.Join(ov, "overlay.json"), "-o", bin}
	if race {
		bin = filepath.Join(bdir, "bsim.race.test")
		args = []string{"test", "-c", "-race", "-tags", "verif", "-overlay", filepath.Join(ov, "overlay.json"), "-o", bin}
	}
	if alt := os.Getenv("VCHECK_REPO"); alt != "" {
		mod, err := os.ReadFile(filepath.Join(verifDir, "sim", "go.mod"))
		if err != nil {
			fatal2("cannot read go.mod: %v", err)
		}
		altMod := filepath.Join(bdir, "alt.go.mod")
		if err := os.WriteFile(altMod, []byte(strings.Replace(string(mod), "=> /repo", "=> "+alt, 1)), 0644); err != nil {
			fatal2("cannot write %s: %v", altMod, err)
		}
		sum, _ := os.ReadFile(filepath.Join(verifDir, "sim", "go.sum"))
		_ = os.WriteFile(filepath.Join(bdir, "alt.go.sum"), sum, 0644)
		args = append(args[:1], append([]string{"-modfile", altMod}, args[1:]...)...)
		fmt.Printf("vcheck: building against %s (VCHECK_REPO), not /repo\n", alt)
	}
	args = append(args, ".")
	c := exec.Command("go1.26.8", args...)
	c.Dir = filepath.Join(verifDir, "sim")
	c.Env = env()
	if out, err := c.CombinedOutput(); err != nil {
		fatal2("building the simulator against /repo failed (not a property verdict): %v\n%s", err, out)
	}
	return bin
}

// ---- workers -------------------------------------------------------------

type worker struct {
	cmd    *exec.Cmd
	in     *bufio.Writer
	inPipe interface{ Close() error }
	out    *bufio.Reader
	errBuf *tailBuf
	dead   bool
}

// tailBuf keeps the tail of a worker's stderr and, from the first line that
// names a fault (race report, fatal error, panic) on, up to 128 KiB of what
// follows: a race report followed by a long goroutine dump must not lose its
// head (it did: a report was classified as a bare process death).
type tailBuf struct {
	mu     sync.Mutex
	buf    []byte
	pin    []byte
	pinned bool
}

var faultMarkers = [][]byte{[]byte("WARNING: DATA RACE"), []byte("fatal error:"), []byte("panic:"), []byte("unexpected fault address")}

func (t *tailBuf) Write(p []byte) (int, error) {
	t.mu.Lock()
	if t.pinned {
		if room := (128 << 10) - len(t.pin); room > 0 {
			if len(p) < room {
				room = len(p)
			}
			t.pin = append(t.pin, p[:room]...)
		}
	}
	t.buf = append(t.buf, p...)
	if !t.pinned {
		first := -1
		for _, m := range faultMarkers {
			if i := bytes.Index(t.buf, m); i >= 0 && (first < 0 || i < first) {
				first = i
			}
		}
		if first >= 0 {
			t.pinned = true
			t.pin = append(t.pin, t.buf[first:]...)
		}
	}
	if len(t.buf) > 64<<10 {
		t.buf = t.buf[len(t.buf)-(32<<10):]
	}
	t.mu.Unlock()
	return len(p), nil
}

func (t *tailBuf) String() string {
	t.mu.Lock()
	defer t.mu.Unlock()
	if t.pinned && !bytes.Contains(t.buf, t.pin[:min(len(t.pin), 64)]) {
		return string(t.pin) + "\n[...]\n" + string(t.buf)
	}
	return string(t.buf)
}

var extraEnv []string
var dumpF *os.File

func startWorker(bin string) *worker { return startWorkerWith(bin, extraEnv) }

func startWorkerWith(bin string, extra []string) *worker {
	c := exec.Command(bin, "-test.run", "TestWorker", "-test.timeout", "0")
	c.Env = append(env(), "BSIM_MODE=worker", "BSIM_BIN="+bin, "GOMAXPROCS=2")
	c.Env = append(c.Env, extra...)
	ip, _ := c.StdinPipe()
	op, _ := c.StdoutPipe()
	eb := &tailBuf{}
	c.Stderr = eb
	if err := c.Start(); err != nil {
		fatal2("cannot start worker: %v", err)
	}
	return &worker{cmd: c, in: bufio.NewWriter(ip), inPipe: ip, out: bufio.NewReaderSize(op, 4<<20), errBuf: eb}
}

func (w *worker) stop() {
	if w == nil || w.dead {
		return
	}
	w.dead = true
	_ = w.inPipe.Close()
	done := make(chan struct{})
	go func() { _ = w.cmd.Wait(); close(done) }()
	select {
	case <-done:
	case <-time.After(5 * time.Second):
		_ = w.cmd.Process.Kill()
		<-done
	}
}

// do runs one job; a worker that dies yields a Result with died=true.
func (w *worker) do(job *Job, timeout time.Duration) *Result {
	b, _ := json.Marshal(job)
	w.in.Write(b)
	w.in.WriteString("\n")
	if err := w.in.Flush(); err != nil {
		w.dead = true
		_ = w.cmd.Wait()
		return &Result{ID: job.ID, Seed: job.Seed, died: true, stderr: w.errBuf.String()}
	}
	type rd struct {
		r   *Result
		err error
	}
	ch := make(chan rd, 1)
	go func() {
		var stdoutTail []string
		for {
			line, err := w.out.ReadString('\n')
			if strings.HasPrefix(line, "@@ ") {
				var r Result
				if jerr := json.Unmarshal([]byte(line[3:]), &r); jerr != nil {
					ch <- rd{nil, jerr}
					return
				}
				ch <- rd{&r, nil}
				return
			}
			if line != "" {
				stdoutTail = append(stdoutTail, line)
				if len(stdoutTail) > 200 {
					stdoutTail = stdoutTail[100:]
				}
			}
			if err != nil {
				ch <- rd{nil, fmt.Errorf("%v\n%s", err, strings.Join(stdoutTail, ""))}
				return
			}
		}
	}()
	select {
	case x := <-ch:
		if x.err != nil {
			w.dead = true
			_ = w.cmd.Process.Kill()
			_ = w.cmd.Wait()
			return &Result{ID: job.ID, Seed: job.Seed, died: true, stderr: x.err.Error() + "\n" + w.errBuf.String()}
		}
		if x.r.Fatal {
			w.stop()
		}
		return x.r
	case <-time.After(timeout):
		w.dead = true
		_ = w.cmd.Process.Kill()
		_ = w.cmd.Wait()
		return &Result{ID: job.ID, Seed: job.Seed, Harness: fmt.Sprintf("watchdog: job exceeded %v of wall clock", timeout), stderr: w.errBuf.String()}
	}
}

// ---- known findings --------------------------------------------------------

type Finding struct {
	Property       string `json:"property"`
	Oracle         string `json:"oracle"`
	Match          string `json:"match"`                      // regexp over the violation message
	RaceBothStacks string `json:"race_both_stacks,omitempty"` // data races: regexp that every access stack of the report must contain
	RaceTopFrame   string `json:"race_top_frame,omitempty"`   // data races: regexp that the innermost non-runtime frame of one access must match
	// DeathInVariant: a process death (no race report) in this run variant is
	// this finding too: the variant exists only to exercise the finding
	// unshielded, and memory the race corrupts can crash the reader before
	// the detector reports the racing access
	DeathInVariant string `json:"death_in_variant,omitempty"`
	What           string `json:"what"`
	Status         string `json:"status"` // known | fixed
	Commit         string `json:"commit,omitempty"`
	Description    string `json:"description,omitempty"`
}

type Findings struct {
	Findings []Finding `json:"findings"`
}

func loadFindings() []Finding {
	b, err := os.ReadFile(filepath.Join(verifDir, "known_findings.json"))
	if err != nil {
		return nil
	}
	var f Findings
	if err := json.Unmarshal(b, &f); err != nil {
		fatal2("known_findings.json does not parse: %v", err)
	}
	return f.Findings
}

// raceReport cuts the first data-race report out of a worker's stderr.
func raceReport(stderr string) string {
	i := strings.Index(stderr, "WARNING: DATA RACE")
	if i < 0 {
		return stderr
	}
	rep := stderr[i:]
	if j := strings.Index(rep, "=================="); j > 0 {
		rep = rep[:j]
	}
	if len(rep) > 6000 {
		rep = rep[:6000]
	}
	return rep
}

// raceBothStacks reports whether every access of a race report (the blocks
// starting "... by goroutine N:") runs underneath a frame matching re; the
// "Goroutine N created at" blocks are not accesses.
func raceBothStacks(report string, re *regexp.Regexp) bool {
	report = strings.TrimPrefix(strings.TrimSpace(report), "WARNING: DATA RACE\n")
	blocks := strings.Split(report, "\n\n")
	n := 0
	for _, b := range blocks {
		first := strings.SplitN(strings.TrimSpace(b), "\n", 2)[0]
		if !strings.Contains(first, " by goroutine ") && !strings.Contains(first, " by main goroutine") {
			continue
		}
		n++
		if !re.MatchString(b) {
			return false
		}
	}
	return n >= 2
}

// raceTopFrame reports whether the innermost frame outside runtime/sync of
// at least one access block of a race report matches re.
func raceTopFrame(report string, re *regexp.Regexp) bool {
	report = strings.TrimPrefix(strings.TrimSpace(report), "WARNING: DATA RACE\n")
	for _, b := range strings.Split(report, "\n\n") {
		lines := strings.Split(strings.TrimSpace(b), "\n")
		if len(lines) < 2 || !strings.Contains(lines[0], " by goroutine ") {
			continue
		}
		for _, l := range lines[1:] {
			l = strings.TrimSpace(l)
			if l == "" || strings.HasPrefix(l, "/") || strings.HasPrefix(l, "<autogenerated>") {
				continue // file:line lines
			}
			if strings.HasPrefix(l, "runtime.") || strings.HasPrefix(l, "sync/atomic.") || strings.HasPrefix(l, "sync.") {
				continue
			}
			if re.MatchString(l) {
				return true
			}
			break // only the innermost user frame counts
		}
	}
	return false
}

func deathFinding(fs []Finding, prop, variant string) *Finding {
	for i := range fs {
		if f := &fs[i]; f.Status == "known" && f.Property == prop && f.DeathInVariant != "" && f.DeathInVariant == variant {
			return f
		}
	}
	return nil
}

func matchFinding(fs []Finding, prop string, v *Violation) *Finding {
	for i := range fs {
		f := &fs[i]
		if f.Status != "known" || f.Property != prop || (f.Oracle != v.Oracle && f.Oracle != "*") {
			continue
		}
		if f.RaceTopFrame != "" {
			re, err := regexp.Compile(f.RaceTopFrame)
			if err != nil || !raceTopFrame(v.Msg, re) {
				continue
			}
		}
		if f.RaceBothStacks != "" {
			re, err := regexp.Compile(f.RaceBothStacks)
			if err != nil || !raceBothStacks(v.Msg, re) {
				continue
			}
		}
		if f.Match != "" {
			if ok, _ := regexp.MatchString(f.Match, v.Msg); !ok {
				continue
			}
		}
		return f
	}
	return nil
}

// ---- main ------------------------------------------------------------------

type tierCfg struct {
	runs    int
	seconds int
}

func main() {
	if len(os.Args) < 2 {
		fatal2("usage: vcheck <check> [--tier quick|thorough] [--replay file] [--runs n] [--seconds n]")
	}
	check := os.Args[1]
	fs := flag.NewFlagSet("vcheck", flag.ExitOnError)
	tier := fs.String("tier", "", "quick|thorough")
	replay := fs.String("replay", "", "replay file")
	runsF := fs.Int("runs", 0, "number of runs")
	secsF := fs.Int("seconds", 0, "wall-clock budget")
	workersF := fs.Int("workers", 0, "worker processes")
	seedF := fs.String("seed", "", "base seed (default $VERIF_SEED or 1)")
	noEvidence := fs.Bool("no-evidence", false, "do not write the evidence file")
	_ = fs.Parse(os.Args[2:])
	if *tier == "" {
		*tier = os.Getenv("VERIF_TIER")
	}
	if *tier != "thorough" {
		*tier = "quick"
	}
	seedStr := *seedF
	if seedStr == "" {
		seedStr = os.Getenv("VERIF_SEED")
	}
	var baseSeed uint64 = 1
	if seedStr != "" {
		v, err := strconv.ParseUint(strings.TrimSpace(seedStr), 10, 64)
		if err != nil {
			if iv, err2 := strconv.ParseInt(strings.TrimSpace(seedStr), 10, 64); err2 == nil {
				v = uint64(iv)
			} else {
				fatal2("bad seed %q", seedStr)
			}
		}
		baseSeed = v
	}
	fmt.Printf("vcheck %s tier=%s VERIF_SEED=%d\n", check, *tier, baseSeed)
	nw := *workersF
	if nw <= 0 {
		nw = runtime.NumCPU()
		if nw > 16 {
			nw = 16
		}
	}
	if p := os.Getenv("VCHECK_DUMP"); p != "" {
		dumpF, _ = os.Create(p)
	}
	def := defFor(check)
	if def == nil {
		fatal2("unknown check %q", check)
	}
	bin := build(def.race)
	extraEnv = def.env

	if *replay != "" {
		os.Exit(doReplay(bin, check, *replay))
	}

	cfg := def.budget[*tier]
	if *runsF > 0 {
		cfg.runs = *runsF
	}
	if *secsF > 0 {
		cfg.seconds = *secsF
	}
	if def.selftest {
		os.Exit(selftest(bin, baseSeed, cfg, nw))
	}
	code := sweep(bin, def, check, *tier, baseSeed, cfg, nw, !*noEvidence)
	// a violation that was observed once and did not reproduce is not
	// reported (exit 2); but a defect whose effect varies between executions
	// (memory it corrupts, say) usually shows again a few seeds on, where it
	// may reproduce: up to two more sweeps over the seeds that follow
	for pass := 0; code == 2 && unconfirmedSeen && pass < 2; pass++ {
		unconfirmedSeen = false
		jobOffset += cfg.runs
		fmt.Fprintf(os.Stderr, "vcheck: continuing with the next %d seeds\n", cfg.runs)
		code = sweep(bin, def, check, *tier, baseSeed, cfg, nw, !*noEvidence)
	}
	os.Exit(code)
}

type checkDef struct {
	property string
	level    string
	race     bool
	// freshProcess: a worker process serves four jobs only, so a quarter of
	// the jobs start in a fresh process (C15: a race on process-wide state
	// that is initialised lazily shows only among the first uses in a process)
	freshProcess bool
	selftest     bool
	env      []string
	budget   map[string]tierCfg
	rule     string
	assume   []string
	probes   []string // reach probes this check cares about
	timeout  time.Duration
	variants []string // job i runs worker check variants[i % len]
	special  bool     // the worker enumerates a finite case space itself (evaluations come from the job)
}

func seedFor(base uint64, i int) uint64 {
	// distinct, well-spread seeds; seed 0 is never used
	z := base*0x9e3779b97f4a7c15 + uint64(i)*0xbf58476d1ce4e5b9 + 1
	z ^= z >> 31
	if z == 0 {
		z = 1
	}
	return z
}

type agg struct {
	runs, violations, budgetStops int
	windows, dirOps, batches      int64
	simMs                         int64
	monitor                       int64
	images                        int64
	probes                        map[string]int
	faults                        map[string]int
	sched                         map[uint64]bool
	schedNT                       map[uint64]bool
	states                        map[uint64]bool
	samples                       []interface{}
	extra                         map[string]float64
}

func newAgg() *agg {
	return &agg{probes: map[string]int{}, faults: map[string]int{}, sched: map[uint64]bool{}, schedNT: map[uint64]bool{}, states: map[uint64]bool{}, extra: map[string]float64{}}
}

func (a *agg) add(r *Result) {
	a.runs++
	a.windows += int64(r.Stats.Windows)
	a.dirOps += int64(r.Stats.DirOps)
	a.batches += int64(r.Stats.Batches)
	a.simMs += r.Stats.SimMillis
	a.monitor += int64(r.Stats.MonitorReads)
	a.images += int64(r.Stats.Images)
	for k, v := range r.Stats.Probes {
		a.probes[k] += v
	}
	for k, v := range r.Stats.Faults {
		a.faults[k] += v
	}
	a.sched[r.Stats.SchedSig] = true
	if r.Stats.Interleaved {
		a.schedNT[r.Stats.SchedSig] = true
	}
	for _, s := range r.StateSigs {
		a.states[s] = true
	}
	if r.BudgetStop {
		a.budgetStops++
	}
	for k, v := range r.Extra {
		if f, ok := v.(float64); ok {
			a.extra[k] += f
		}
	}
}

// removeStaleScratch deletes scratch directories of simulator processes that
// no longer exist (killed workers cannot clean up after themselves).
func removeStaleScratch() {
	ents, err := os.ReadDir("/dev/shm")
	if err != nil {
		return
	}
	for _, e := range ents {
		name := e.Name()
		if !strings.HasPrefix(name, "bsim-") {
			continue
		}
		pidStr := strings.SplitN(strings.TrimPrefix(name, "bsim-"), "-", 2)[0]
		pid, err := strconv.Atoi(pidStr)
		if err != nil {
			continue
		}
		if cmd, err := os.ReadFile(fmt.Sprintf("/proc/%d/cmdline", pid)); err == nil && strings.Contains(string(cmd), "bsim") {
			continue // that simulator process is alive (maybe another vcheck's)
		}
		_ = os.RemoveAll(filepath.Join("/dev/shm", name))
	}
}

var (
	jobOffset       int
	unconfirmedSeen bool
)

func sweep(bin string, def *checkDef, check, tier string, baseSeed uint64, cfg tierCfg, nw int, writeEv bool) int {
	removeStaleScratch()
	defer removeStaleScratch()
	start := time.Now()
	deadline := start.Add(time.Duration(cfg.seconds) * time.Second)
	findings := loadFindings()
	a := newAgg()
	var mu sync.Mutex
	next := 0
	var firstViol *Result
	var harness []string
	known := map[string]*Result{}
	stop := false
	abandon := false
	live := make([]*worker, nw)
	var wg sync.WaitGroup
	timeout := def.timeout
	if timeout == 0 {
		timeout = 120 * time.Second
	}
	for wi := 0; wi < nw; wi++ {
		wg.Add(1)
		wi := wi
		go func() {
			defer wg.Done()
			w := startWorker(bin)
			mu.Lock()
			live[wi] = w
			mu.Unlock()
			defer func() { w.stop() }()
			jobsInProcess := 0
			for {
				mu.Lock()
				if stop || next >= cfg.runs || time.Now().After(deadline) {
					mu.Unlock()
					return
				}
				i := next
				next++
				wantSample := i < 3
				mu.Unlock()
				jcheck := check
				if len(def.variants) > 0 {
					jcheck = def.variants[(i+jobOffset)%len(def.variants)]
				}
				job := &Job{ID: i, Check: jcheck, Tier: tier, Seed: seedFor(baseSeed, i+jobOffset), Trace: wantSample}
				r := w.do(job, timeout)
				jobsInProcess++
				if def.freshProcess && !w.dead && jobsInProcess >= 4 {
					// every fourth job starts a fresh process (a fresh process per
					// job cost a third of the runs of a quick sweep)
					jobsInProcess = 0
					w.stop()
					w = startWorker(bin)
					mu.Lock()
					live[wi] = w
					mu.Unlock()
				}
				if hp := os.Getenv("VCHECK_DUMP_HASHES"); hp != "" {
					// determinism aid: one line per job, to be compared between
					// sweeps with different worker counts / GOMAXPROCS
					mu.Lock()
					if f, err := os.OpenFile(hp, os.O_APPEND|os.O_CREATE|os.O_WRONLY, 0644); err == nil {
						v := ""
						if r.Violation != nil {
							v = r.Violation.Oracle
						}
						fmt.Fprintf(f, "%d %s %d %s w=%d %s\n", i, jcheck, job.Seed, r.LogHash, r.Stats.Windows, v)
						f.Close()
					}
					mu.Unlock()
				}
				mu.Lock()
				if abandon {
					mu.Unlock()
					return // killed on purpose after a violation was found elsewhere
				}
				mu.Unlock()
				if w.dead {
					w = startWorker(bin)
					mu.Lock()
					live[wi] = w
					mu.Unlock()
				}
				mu.Lock()
				switch {
				case r.died && strings.Contains(r.stderr, "WARNING: DATA RACE"):
					// a race report is a verdict by itself (the detector has no
					// false positives; concurrent windows need not replay)
					r.Violation = &Violation{Oracle: "data-race", Msg: raceReport(r.stderr)}
					r.Seed, r.Check = job.Seed, jcheck
					if f := matchFinding(findings, def.property, r.Violation); f != nil {
						if _, ok := known[f.What]; !ok {
							known[f.What] = r
						}
						a.runs++
						a.probes["known-race-reported"]++
					} else {
						a.violations++
						if firstViol == nil {
							firstViol = r
						}
						stop = true
					}
				case r.died && deathFinding(findings, def.property, jcheck) != nil:
					f := deathFinding(findings, def.property, jcheck)
					r.Violation = &Violation{Oracle: "process-died", Msg: "process death in the dedicated unshielded probe " + jcheck + ": " + faultHead(r.stderr, 12)}
					r.Seed, r.Check = job.Seed, jcheck
					if _, ok := known[f.What]; !ok {
						known[f.What] = r
					}
					a.runs++
					a.probes["known-finding-process-death"]++
				case r.died:
					// the process died (SIGSEGV, fatal error, race report): this is
					// a property verdict only if it reproduces in a fresh worker
					mu.Unlock()
					w2 := startWorker(bin)
					r2 := w2.do(&Job{ID: i, Check: jcheck, Tier: tier, Seed: job.Seed}, timeout)
					w2.stop()
					mu.Lock()
					if r2.died {
						r.Violation = &Violation{Oracle: "process-died", Msg: "the simulator process died while running this seed (twice): " + faultHead(r2.stderr, 24)}
						r.Seed = job.Seed
						if firstViol == nil {
							firstViol = r
						}
						stop = true
					} else {
						harness = append(harness, fmt.Sprintf("worker died on seed %d but not on re-execution:\n%s\n[...]\n%s", job.Seed, faultHead(r.stderr, 40), lastLines(r.stderr, 12)))
						stop = true
					}
				case r.Harness != "":
					harness = append(harness, fmt.Sprintf("seed %d: %s\n%s", job.Seed, r.Harness, lastLines(r.stderr, 20)))
					stop = true
				case r.Violation != nil:
					if f := matchFinding(findings, def.property, r.Violation); f != nil {
						if _, ok := known[f.What]; !ok {
							known[f.What] = r
						}
						a.add(r)
					} else {
						a.violations++
						if firstViol == nil {
							firstViol = r
						}
						stop = true
					}
				default:
					// non-fatal observations: known findings are reported as such,
					// anything else is a violation like any other
					for oi := range r.Observations {
						o := r.Observations[oi]
						if f := matchFinding(findings, def.property, &o); f != nil {
							if _, ok := known[f.What]; !ok {
								kr := *r
								kr.Violation = &o
								known[f.What] = &kr
							}
						} else if firstViol == nil {
							vr := *r
							vr.Violation = &o
							firstViol = &vr
							a.violations++
							stop = true
						}
					}
					a.add(r)
					if dumpF != nil {
						fmt.Fprintf(dumpF, "%d %d %d %d\n", i, r.Seed, r.Stats.SchedSig, r.Stats.Windows)
					}
					if wantSample {
						a.samples = append(a.samples, sampleOf(r))
					}
				}
				mu.Unlock()
			}
		}()
	}
	// once a violation is known, jobs still in flight elsewhere are not waited
	// for longer than a short grace period (a hung system under test would
	// otherwise hold the verdict back until the watchdog)
	done := make(chan struct{})
	go func() { wg.Wait(); close(done) }()
	for waiting := true; waiting; {
		select {
		case <-done:
			waiting = false
		case <-time.After(500 * time.Millisecond):
			mu.Lock()
			have := firstViol != nil
			mu.Unlock()
			if have {
				select {
				case <-done:
				case <-time.After(8 * time.Second):
					mu.Lock()
					abandon = true
					for _, w := range live {
						if w != nil && !w.dead && w.cmd.Process != nil {
							_ = w.cmd.Process.Kill()
						}
					}
					mu.Unlock()
					<-done
				}
				waiting = false
			}
		}
	}
	wall := time.Since(start).Seconds()
	if len(harness) > 0 {
		fmt.Fprintf(os.Stderr, "vcheck: harness trouble (exit 2, not a verdict):\n%s\n", strings.Join(harness, "\n"))
		return 2
	}
	code := 0
	for what, r := range known {
		fmt.Printf("KNOWN-FINDING: property=%s %s (seed %d: %s)\n", def.property, what, r.Seed, oneLine(r.Violation.Msg, 160))
	}
	if firstViol != nil {
		vcheck := check
		if firstViol.Check != "" {
			vcheck = firstViol.Check
		}
		path := report(bin, def, vcheck, tier, firstViol)
		if path == "" {
			fmt.Fprintln(os.Stderr, "vcheck: harness trouble (exit 2, not a verdict): a violation was observed once and did not reproduce in three fresh executions of the same seed")
			code = 2
			unconfirmedSeen = true
		} else {
			fmt.Printf("VIOLATION property=%s replay=%s\n", def.property, path)
			code = 1
		}
	}
	if writeEv && code != 2 {
		writeEvidence(def, check, tier, baseSeed, a, wall, code != 0)
	}
	unreached := []string{}
	for _, p := range def.probes {
		if a.probes[p] == 0 {
			unreached = append(unreached, p)
		}
	}
	if len(unreached) > 0 {
		fmt.Printf("WARNING unreached-probe %s\n", strings.Join(unreached, " "))
	}
	fmt.Printf("%s %s: %d runs, %d windows, %d directory operations, %d distinct schedules (%d non-trivial), %d distinct layouts, %.1fs wall, %.0f runs/hour\n",
		check, tier, a.runs, a.windows, a.dirOps, len(a.sched), len(a.schedNT), len(a.states), wall, float64(a.runs)/wall*3600)
	return code
}

func lastLines(s string, n int) string {
	ls := strings.Split(strings.TrimRight(s, "\n"), "\n")
	if len(ls) > n {
		ls = ls[len(ls)-n:]
	}
	return strings.Join(ls, "\n")
}

func oneLine(s string, n int) string {
	s = strings.ReplaceAll(s, "\n", " ")
	if len(s) > n {
		s = s[:n] + "..."
	}
	return s
}

func sampleOf(r *Result) interface{} {
	sched := r.Sched
	if len(sched) > 60 {
		sched = sched[:60]
	}
	ops := r.Ops
	if len(ops) > 30 {
		ops = ops[:30]
	}
	m := map[string]interface{}{"seed": r.Seed, "knobs": r.Knobs, "operations": ops, "schedule_prefix": sched, "windows": r.Stats.Windows, "log_hash": r.LogHash}
	if r.Sample != nil {
		m["case"] = r.Sample
	}
	return m
}

// ---- confirm, minimise, report ----------------------------------------------

func sameViolation(r *Result, oracle string) bool {
	return r != nil && r.Violation != nil && r.Violation.Oracle == oracle
}

func runTape(bin string, check, tier string, seed uint64, tape []uint32, trace bool, timeout time.Duration) *Result {
	w := startWorker(bin)
	defer w.stop()
	if tape == nil {
		tape = []uint32{}
	}
	return w.do(&Job{ID: 0, Check: check, Tier: tier, Seed: seed, Tape: tape, Replay: true, Trace: trace}, timeout)
}

func report(bin string, def *checkDef, check, tier string, v *Result) string {
	dir := filepath.Join(verifDir, "replays")
	_ = os.MkdirAll(dir, 0755)
	path := filepath.Join(dir, fmt.Sprintf("%s-%s-%d.json", check, v.Violation.Oracle, v.Seed))
	oracle := v.Violation.Oracle
	rep := map[string]interface{}{
		"property": def.property, "check": check, "tier": tier, "seed": v.Seed,
		"oracle": oracle, "message": v.Violation.Msg,
	}
	timeout := def.timeout
	if timeout == 0 {
		timeout = 120 * time.Second
	}
	final := v
	if v.Tape != nil && oracle != "process-died" {
		// confirm in a fresh process
		c := runTape(bin, check, tier, v.Seed, v.Tape, true, timeout)
		confirmed := sameViolation(c, oracle)
		if !confirmed && oracle != "livelock" && oracle != "lock-deadlock" {
			// second and third opinion: the seed itself, in fresh processes
			for k := 0; k < 2 && !confirmed; k++ {
				w := startWorker(bin)
				c = w.do(&Job{Check: check, Tier: tier, Seed: v.Seed, Trace: true}, timeout)
				w.stop()
				confirmed = sameViolation(c, oracle)
			}
			if confirmed {
				v, final = c, c
				rep["note"] = "reproduced by re-running the seed, not by the tape recorded in the sweep"
			} else {
				// observed once, never again: the simulator was not
				// deterministic for this seed. That is harness trouble, not a
				// verdict (a violation is reported with a replay that
				// reproduces it); the record is kept for diagnosis.
				rep["replay_confirmed"] = false
				rep["tape"], rep["knobs"], rep["operations"], rep["event_log_tail"] = v.Tape, v.Knobs, v.Ops, v.LogTail
				b, _ := json.MarshalIndent(rep, "", " ")
				ud := filepath.Join(verifDir, "build", "unconfirmed")
				_ = os.MkdirAll(ud, 0755)
				_ = os.WriteFile(filepath.Join(ud, filepath.Base(path)), b, 0644)
				fmt.Fprintf(os.Stderr, "unconfirmed: oracle=%s seed=%d: %s\n(record: %s)\n", oracle, v.Seed, oneLine(v.Violation.Msg, 600), filepath.Join(ud, filepath.Base(path)))
				return ""
			}
		}
		rep["replay_confirmed"] = confirmed
		if confirmed {
			min := minimise(bin, check, tier, v.Seed, v.Tape, oracle, timeout)
			c2 := runTape(bin, check, tier, v.Seed, min, true, timeout)
			if sameViolation(c2, oracle) {
				final = c2
				rep["original_tape_len"] = len(v.Tape)
			} else {
				final = c
			}
		}
	} else {
		rep["replay_confirmed"] = false
		rep["note"] = "the simulator process died; replay by seed"
	}
	rep["tape"] = final.Tape
	rep["knobs"] = final.Knobs
	rep["operations"] = final.Ops
	rep["schedule"] = final.Sched
	rep["event_log_tail"] = final.LogTail
	rep["tape_labels"] = final.Labels
	if final.Violation != nil {
		rep["message"] = final.Violation.Msg
		rep["window"] = final.Violation.Win
	}
	if final.Extra != nil {
		rep["extra"] = final.Extra
	}
	b, _ := json.MarshalIndent(rep, "", " ")
	_ = os.WriteFile(path, b, 0644)
	fmt.Printf("violation: oracle=%s seed=%d: %s\n", oracle, v.Seed, oneLine(fmt.Sprint(rep["message"]), 600))
	return path
}

// minimise shrinks the tape while the same oracle still fires: truncation,
// chunk deletion, zeroing, halving. Candidates are evaluated in parallel and
// the first (lowest index) success of a round is accepted.
func minimise(bin, check, tier string, seed uint64, tape []uint32, oracle string, timeout time.Duration) []uint32 {
	deadline := time.Now().Add(90 * time.Second)
	cur := append([]uint32(nil), tape...)
	nw := runtime.NumCPU()
	if nw > 16 {
		nw = 16
	}
	pool := make([]*worker, nw)
	for i := range pool {
		pool[i] = startWorker(bin)
	}
	defer func() {
		for _, w := range pool {
			w.stop()
		}
	}()
	try := func(cands [][]uint32) int {
		// returns index of the first candidate that still fails, or -1
		res := make([]bool, len(cands))
		var wg sync.WaitGroup
		idx := 0
		var mu sync.Mutex
		for wi := range pool {
			wg.Add(1)
			go func(wi int) {
				defer wg.Done()
				for {
					mu.Lock()
					if idx >= len(cands) || time.Now().After(deadline) {
						mu.Unlock()
						return
					}
					i := idx
					idx++
					mu.Unlock()
					c := cands[i]
					if c == nil {
						c = []uint32{}
					}
					r := pool[wi].do(&Job{Check: check, Tier: tier, Seed: seed, Tape: c, Replay: true}, timeout)
					if pool[wi].dead {
						pool[wi] = startWorker(bin)
					}
					res[i] = sameViolation(r, oracle)
				}
			}(wi)
		}
		wg.Wait()
		for i, ok := range res {
			if ok {
				return i
			}
		}
		return -1
	}
	// 1. truncation (an exhausted tape yields zeros)
	for len(cur) > 0 && time.Now().Before(deadline) {
		var cands [][]uint32
		for _, f := range []int{8, 4, 2} {
			n := len(cur) - len(cur)/f
			if n < len(cur) {
				cands = append(cands, cur[:len(cur)-(len(cur)-n)])
			}
		}
		cands = append([][]uint32{cur[:len(cur)/2]}, cands...)
		i := try(cands)
		if i < 0 {
			break
		}
		cur = append([]uint32(nil), cands[i]...)
	}
	// 2. chunk deletion
	for size := len(cur) / 2; size >= 1 && time.Now().Before(deadline); {
		var cands [][]uint32
		for off := 0; off+size <= len(cur); off += size {
			c := append(append([]uint32(nil), cur[:off]...), cur[off+size:]...)
			cands = append(cands, c)
		}
		if len(cands) > 64 {
			cands = cands[:64]
		}
		i := try(cands)
		if i >= 0 {
			cur = cands[i]
			if size > len(cur) {
				size = len(cur) / 2
			}
			continue
		}
		size /= 2
	}
	// 3. zero / halve single draws
	for pass := 0; pass < 2 && time.Now().Before(deadline); pass++ {
		for off := 0; off < len(cur) && time.Now().Before(deadline); off += 32 {
			var cands [][]uint32
			var at []int
			for j := off; j < off+32 && j < len(cur); j++ {
				if cur[j] == 0 {
					continue
				}
				c := append([]uint32(nil), cur...)
				if pass == 0 {
					c[j] = 0
				} else {
					c[j] = cur[j] / 2
				}
				cands = append(cands, c)
				at = append(at, j)
			}
			if len(cands) == 0 {
				continue
			}
			if i := try(cands); i >= 0 {
				cur = cands[i]
				off -= 32 // retry the same block with the new base
			}
		}
	}
	for len(cur) > 0 && cur[len(cur)-1] == 0 {
		cur = cur[:len(cur)-1]
	}
	return cur
}

func doReplay(bin, check, path string) int {
	b, err := os.ReadFile(path)
	if err != nil {
		fatal2("cannot read replay file: %v", err)
	}
	var rep struct {
		Property string   `json:"property"`
		Check    string   `json:"check"`
		Tier     string   `json:"tier"`
		Seed     uint64   `json:"seed"`
		Oracle   string   `json:"oracle"`
		Tape     []uint32 `json:"tape"`
	}
	if err := json.Unmarshal(b, &rep); err != nil {
		fatal2("replay file does not parse: %v", err)
	}
	if rep.Check != "" {
		check = rep.Check
	}
	var r *Result
	if rep.Tape == nil {
		w := startWorker(bin)
		r = w.do(&Job{Check: check, Tier: rep.Tier, Seed: rep.Seed, Trace: true}, 10*time.Minute)
		w.stop()
	} else {
		r = runTape(bin, check, rep.Tier, rep.Seed, rep.Tape, true, 10*time.Minute)
	}
	if r.died {
		fmt.Printf("replay: the simulator process died:\n%s\n", lastLines(r.stderr, 40))
		if rep.Oracle == "process-died" {
			fmt.Printf("VIOLATION property=%s replay=%s\n", rep.Property, path)
			return 1
		}
		return 2
	}
	if r.Harness != "" {
		fmt.Fprintf(os.Stderr, "replay: harness error: %s\n", r.Harness)
		return 2
	}
	for _, l := range r.Ops {
		fmt.Println("op   ", l)
	}
	for _, l := range r.LogTail {
		fmt.Println("event", l)
	}
	if r.Violation != nil {
		fmt.Printf("replay: oracle=%s window=%d: %s\n", r.Violation.Oracle, r.Violation.Win, r.Violation.Msg)
		fmt.Printf("VIOLATION property=%s replay=%s\n", rep.Property, path)
		return 1
	}
	fmt.Println("replay: no violation")
	return 0
}

// ---- evidence ----------------------------------------------------------------

func writeEvidence(def *checkDef, check, tier string, seed uint64, a *agg, wall float64, violated bool) {
	probes := map[string]int{}
	for k, v := range a.probes {
		probes[k] = v
	}
	var unreached []string
	for _, p := range def.probes {
		if a.probes[p] == 0 {
			unreached = append(unreached, p)
		}
	}
	sort.Strings(unreached)
	nt := len(a.schedNT)
	evals := a.runs
	if def.special {
		evals, nt = int(a.extra["evaluations"]), int(a.extra["distinct_nontrivial"])
	}
	cov := map[string]interface{}{
		"evaluations":                   evals,
		"distinct_nontrivial":           nt,
		"rule":                          def.rule,
		"samples":                       a.samples,
		"runs":                          a.runs,
		"runs_per_hour":                 float64(a.runs) / wall * 3600,
		"seeds":                         fmt.Sprintf("seedFor(VERIF_SEED=%d, 0..%d)", seed, a.runs-1),
		"scheduler_windows":             a.windows,
		"directory_operations":          a.dirOps,
		"batches":                       a.batches,
		"monitor_reads":                 a.monitor,
		"simulated_time_ms":             a.simMs,
		"distinct_schedules":            len(a.sched),
		"distinct_layouts":              len(a.states),
		"fault_kinds_fired":             a.faults,
		"crash_images_probed":           a.images,
		"probes":                        probes,
		"unreached_probes":              unreached,
		"runs_stopped_at_window_budget": a.budgetStops,
		"real_vs_stub": map[string]string{
			"real":      "packages bluge, index, index/mergeplan, index/lock, ice v1/v2, roaring, vellum, mmap-go, os (pass-through hooks), tmpfs files, flock, mmap",
			"simulated": "goroutine choice (gates, one release per window), select order (runtime overlay keyed per window), time (testing/synctest fake clock), durability and process death (images + prober child), injected errors",
		},
		"exhaustive": false,
	}
	for k, v := range a.extra {
		if k != "evaluations" && k != "distinct_nontrivial" && k != "exhaustive" {
			cov[k] = v
		}
	}
	if a.extra["exhaustive"] > 0 && !violated {
		cov["exhaustive"] = true
	}
	ev := map[string]interface{}{
		"property_id": def.property,
		"tier":        tier,
		"seed":        int64(seed & 0x7fffffffffffffff),
		"level":       def.level,
		"coverage":    cov,
		"assumptions": def.assume,
		"wall_s":      wall,
		"violations":  a.violations,
	}
	_ = os.MkdirAll(filepath.Join(verifDir, "evidence"), 0755)
	b, _ := json.MarshalIndent(ev, "", " ")
	if err := os.WriteFile(filepath.Join(verifDir, "evidence", def.property+".json"), b, 0644); err != nil {
		fatal2("cannot write evidence: %v", err)
	}
}

// faultHead returns the part of a dead worker's stderr that names the fault:
// from the first "unexpected fault address" / "fatal error" / "panic:" line,
// n lines on (the faulting goroutine's innermost frames); the last lines if
// no such line is found.
func faultHead(stderr string, n int) string {
	lines := strings.Split(stderr, "\n")
	for i, l := range lines {
		if strings.HasPrefix(l, "unexpected fault address") || strings.HasPrefix(l, "fatal error:") || strings.HasPrefix(l, "panic:") || strings.HasPrefix(l, "SIG") {
			j := i + n
			if j > len(lines) {
				j = len(lines)
			}
			return strings.Join(lines[i:j], "\n")
		}
	}
	return lastLines(stderr, n)
}
