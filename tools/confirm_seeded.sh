#!/bin/bash
# confirm_seeded.sh <name> <package dir relative to module root> <go test -run pattern>
# Confirms a seeded change in its scratch worktree /tmp/mut/<name>: the existing
# suite passes with the change; the demonstration fails with it and passes
# without it. Uses git apply -R / git apply (never git stash: the stash stack is
# shared between worktrees).
n="${1:?name}"; pkgdir="${2:?pkgdir}"; pat="${3:?pattern}"
w="/tmp/mut/${n}"; o="/tmp/mut/${n}-out"
export GOFLAGS=-mod=mod GOPROXY=off GOSUMDB=off
cd "${w:?}" || exit 2
git diff > "${o:?}/p.diff"
echo "=== ${n}: suite with change"
if go test -vet=off -count=1 ./... > "${o}/my_suite.log" 2>&1; then echo "SUITE PASS"; else echo "SUITE FAIL"; grep -v "^ok\|no test files" "${o}/my_suite.log" | head -20; fi
cp "${o}/demo_test.go" "${w:?}/${pkgdir:?}/demo_test.go"
echo "--- demo with change"
if go test -vet=off -count=1 -run "${pat}" "./${pkgdir}/" > "${o}/my_demo_with.log" 2>&1; then echo "DEMO PASS (with change)"; else echo "DEMO FAIL (with change)"; fi
tail -3 "${o}/my_demo_with.log"
git apply -R "${o}/p.diff"
echo "--- demo without change"
if go test -vet=off -count=1 -run "${pat}" "./${pkgdir}/" > "${o}/my_demo_without.log" 2>&1; then echo "DEMO PASS (without change)"; else echo "DEMO FAIL (without change)"; fi
tail -2 "${o}/my_demo_without.log"
git apply "${o}/p.diff"
rm -f "${w:?}/${pkgdir:?}/demo_test.go"
git status --short
