package sim

import (
	"bytes"
	"encoding/binary"
	"fmt"
	"os"
	"path/filepath"
	"sort"

	"github.com/blugelabs/bluge/index"
)

// ---- C12: snapshot files round-trip; damaged files are rejected safely ----

func applyOps(ops []*DirOp, start map[string][]byte, upto int) (files map[string][]byte, snaps int) {
	files = cloneFiles(start)
	for _, op := range ops {
		if op.Idx > upto {
			break
		}
		switch op.Op {
		case "persist":
			n := fileName(op.Kind, op.ID)
			if op.Data == nil {
				delete(files, n)
			} else {
				files[n] = op.Data
			}
		case "remove":
			if op.Err == "" {
				delete(files, fileName(op.Kind, op.ID))
			}
		}
	}
	for n := range files {
		if filepath.Ext(n) == ".snp" {
			snaps++
		}
	}
	return files, snaps
}

// roundTrip decodes a persisted snapshot file with the exported decoder and
// compares with what was handed to the encoder.
func roundTrip(op *DirOp) string {
	if len(op.Data) < 4 {
		return fmt.Sprintf("snapshot file %s is only %d bytes", fileName(op.Kind, op.ID), len(op.Data))
	}
	var s index.Snapshot
	n, err := s.ReadFrom(bytes.NewReader(op.Data[:len(op.Data)-4]))
	if err != nil {
		return fmt.Sprintf("snapshot file %s does not decode: %v", fileName(op.Kind, op.ID), err)
	}
	if int(n) != len(op.Data)-4 {
		return fmt.Sprintf("snapshot file %s: decoder consumed %d of %d bytes", fileName(op.Kind, op.ID), n, len(op.Data)-4)
	}
	got := s.VerifSegmentInfos()
	if len(got) != len(op.SnapInfo) {
		return fmt.Sprintf("snapshot file %s: %d segments written, %d read back", fileName(op.Kind, op.ID), len(op.SnapInfo), len(got))
	}
	for i := range got {
		w, g := op.SnapInfo[i], got[i]
		if w.ID != g.ID || w.Type != g.Type || w.Version != g.Version {
			return fmt.Sprintf("snapshot file %s segment %d: wrote id=%d type=%s version=%d, read id=%d type=%s version=%d", fileName(op.Kind, op.ID), i, w.ID, w.Type, w.Version, g.ID, g.Type, g.Version)
		}
		if fmt.Sprint(w.DeletedDocs) != fmt.Sprint(g.DeletedDocs) {
			return fmt.Sprintf("snapshot file %s segment %d: wrote deleted set %v, read %v", fileName(op.Kind, op.ID), i, w.DeletedDocs, g.DeletedDocs)
		}
	}
	return ""
}

type damage struct {
	name string
	data []byte
}

// uvarintFields walks the version-1 layout and returns the offset and width of
// every uvarint (format version, segment count, type length, id, bitmap
// length) of an intact file.
func uvarintFields(b []byte) [][2]int {
	var rv [][2]int
	body := b[:len(b)-4]
	pos := 0
	uv := func() (uint64, bool) {
		v, n := binary.Uvarint(body[pos:])
		if n <= 0 {
			return 0, false
		}
		rv = append(rv, [2]int{pos, n})
		pos += n
		return v, true
	}
	if _, ok := uv(); !ok {
		return rv
	}
	nseg, ok := uv()
	if !ok {
		return rv
	}
	for i := uint64(0); i < nseg && pos < len(body); i++ {
		tl, ok := uv()
		if !ok {
			return rv
		}
		pos += int(tl) + 4
		if pos > len(body) {
			return rv
		}
		if _, ok := uv(); !ok {
			return rv
		}
		dl, ok := uv()
		if !ok {
			return rv
		}
		pos += int(dl)
	}
	return rv
}

func damagesOf(c []byte, thorough bool, rng *RNG) []damage {
	var out []damage
	n := len(c)
	// truncations
	if (thorough && n <= 3000) || n <= 700 {
		for k := 0; k < n; k++ {
			out = append(out, damage{fmt.Sprintf("truncate:%d", k), c[:k]})
		}
	} else {
		set := map[int]bool{}
		for _, k := range []int{0, 1, 2, 3, 4, 5, 9, 10, 11, 4092, 4093, 4094, 4095, 4096, 4097, 4100, n - 5, n - 4, n - 3, n - 1} {
			if k >= 0 && k < n {
				set[k] = true
			}
		}
		for i := 0; i < 16; i++ {
			set[int(rng.Next()%uint64(n))] = true
		}
		var ks []int
		for k := range set {
			ks = append(ks, k)
		}
		sort.Ints(ks)
		for _, k := range ks {
			out = append(out, damage{fmt.Sprintf("truncate:%d", k), c[:k]})
		}
	}
	// single-bit flips
	flip := func(byteIdx, bit int) {
		d := append([]byte(nil), c...)
		d[byteIdx] ^= 1 << uint(bit)
		out = append(out, damage{fmt.Sprintf("bitflip:%d.%d", byteIdx, bit), d})
	}
	if (thorough && n <= 1200) || n <= 300 {
		for i := 0; i < n; i++ {
			for b := 0; b < 8; b++ {
				flip(i, b)
			}
		}
	} else {
		set := map[int]bool{}
		for i := 0; i < 6 && i < n; i++ {
			set[i] = true
		}
		for i := n - 5; i < n; i++ {
			if i >= 0 {
				set[i] = true
			}
		}
		for i := 4094; i < 4098 && i < n; i++ {
			set[i] = true
		}
		var is []int
		for i := range set {
			is = append(is, i)
		}
		sort.Ints(is)
		for _, i := range is {
			for b := 0; b < 8; b++ {
				flip(i, b)
			}
		}
		nflip := 40
		if thorough {
			nflip = 1500
		}
		for k := 0; k < nflip; k++ {
			flip(int(rng.Next()%uint64(n)), int(rng.Next()%8))
		}
	}
	// appended tails
	out = append(out, damage{"append:1", append(append([]byte(nil), c...), 0)})
	out = append(out, damage{"append:4", append(append([]byte(nil), c...), 1, 2, 3, 4)})
	out = append(out, damage{"append:self", append(append([]byte(nil), c...), c...)})
	out = append(out, damage{"zero-filled", make([]byte, n)})
	g := make([]byte, n)
	for i := range g {
		g[i] = byte(rng.Next())
	}
	out = append(out, damage{"garbage", g})
	// length-field attacks
	fields := uvarintFields(c)
	for fi, f := range fields {
		if len(fields) > 40 && !thorough && fi >= 4 && fi < len(fields)-4 && rng.Next()%uint64(len(fields)) >= 8 {
			continue // big files, quick tier: first and last fields plus a seeded sample
		}
		if len(fields) > 400 && thorough && fi >= 8 && fi < len(fields)-8 && rng.Next()%uint64(len(fields)) >= 200 {
			continue
		}
		for _, v := range []uint64{1 << 31, 1 << 40, 1 << 63, 1<<64 - 1} {
			var buf [binary.MaxVarintLen64]byte
			m := binary.PutUvarint(buf[:], v)
			d := append(append(append([]byte(nil), c[:f[0]]...), buf[:m]...), c[f[0]+f[1]:]...)
			out = append(out, damage{fmt.Sprintf("uvarint-field:%d@%d=2^%d", fi, f[0], bitsLen(v)), d})
		}
	}
	return out
}

func bitsLen(v uint64) int {
	n := 0
	for v > 1 {
		v >>= 1
		n++
	}
	return n
}

func dirSize(files map[string][]byte) int {
	t := 0
	for _, b := range files {
		t += len(b)
	}
	return t
}

func snapPostRun(r *Run, res *Result) {
	if r.k.Dir != "fs" || r.trace == nil {
		return
	}
	if res.Extra == nil {
		res.Extra = map[string]any{}
	}
	thorough := r.p.Tier == "thorough"
	rng := NewRNG(hashStr(fmt.Sprint("c12", res.Seed)))
	var snapOps []*DirOp
	big := 0
	for _, op := range r.trace.Ops {
		if op.Op == "persist" && op.Kind == ".snp" && op.Err == "" && op.Data != nil {
			if msg := roundTrip(op); msg != "" {
				res.Violation = &Violation{Oracle: "snapshot-round-trip", Msg: msg, Win: op.Win}
				return
			}
			snapOps = append(snapOps, op)
			if len(op.Data) > 4096 {
				big++
				nd := 0
				for _, si := range op.SnapInfo {
					if si.Deleted > 0 {
						nd++
					}
				}
				if nd >= 8 {
					res.Stats.Probes["snapshot-over-4096-bytes-with-many-deleted-bitmaps"]++
				}
			}
		}
	}
	res.Extra["snapshots_round_tripped"] = float64(len(snapOps))
	res.Extra["snapshots_over_4096_bytes"] = float64(big)
	if big > 0 {
		res.Stats.Probes["snapshot-over-4096-bytes"] += big
	}
	if len(snapOps) == 0 {
		return
	}
	// targets: the largest file, one with deleted bitmaps, the first, a random one
	pick := map[int]bool{}
	largest, withDel := 0, -1
	for i, op := range snapOps {
		if len(op.Data) > len(snapOps[largest].Data) {
			largest = i
		}
		for _, si := range op.SnapInfo {
			if si.Deleted > 0 {
				withDel = i
			}
		}
	}
	pick[largest] = true
	if withDel >= 0 && (thorough || !r.p.NoMerge) {
		pick[withDel] = true
		res.Stats.Probes["damaged-snapshot-with-deleted-bitmap"]++
	}
	if thorough {
		pick[0] = true
		pick[int(rng.Next()%uint64(len(snapOps)))] = true
	}
	var targets []int
	for i := range pick {
		targets = append(targets, i)
	}
	sort.Ints(targets)
	nd := 0
	for _, ti := range targets {
		op := snapOps[ti]
		before, snapsBefore := applyOps(r.trace.Ops, r.startImage, op.Idx-1)
		after, _ := applyOps(r.trace.Ops, r.startImage, op.Idx)
		name := fileName(op.Kind, op.ID)
		// what an intact directory recovers to, before and after this snapshot
		oldKey, newKey := "", ""
		probe := func(files map[string][]byte, mmap bool, tag string) (*ProbeResp, bool, string) {
			dir := filepath.Join(scratch(), fmt.Sprintf("dmg-%d-%d", runCounter, nd))
			nd++
			defer os.RemoveAll(dir)
			if err := materialize(dir, &Image{Files: files}, false); err != nil {
				return nil, true, "cannot materialise: " + err.Error()
			}
			return getProber().Probe(&ProbeReq{Dir: dir, SegVer: r.k.SegVer, MMap: mmap, IDs: r.idspace, Mem: true})
		}
		if snapsBefore > 0 {
			resp, died, msg := probe(before, true, "before")
			if died || resp.Panic != "" || resp.ReaderErr != "" {
				res.Violation = &Violation{Oracle: "harness", Msg: fmt.Sprintf("intact image before %s does not open: %v %s", name, died, msg)}
				return
			}
			oldKey = resp.Content.Content().Key()
		}
		{
			resp, died, msg := probe(after, true, "after")
			if died || resp.Panic != "" || resp.ReaderErr != "" {
				res.Violation = &Violation{Oracle: "harness", Msg: fmt.Sprintf("intact image after %s does not open: %v %s", name, died, msg)}
				return
			}
			newKey = resp.Content.Content().Key()
		}
		_ = newKey
		ds := damagesOf(op.Data, thorough, rng)
		bound := uint64(64*dirSize(after) + 16<<20)
		for di, d := range ds {
			if overTime(res) {
				break
			}
			files := cloneFiles(after)
			files[name] = d.data
			for _, mm := range []bool{true, false} {
				if !thorough && len(op.Data) > 700 && (di%2 == 0) == mm {
					continue // quick tier on big files: alternate the loaders
				}
				loader := "mmap"
				if !mm {
					loader = "non-mmap"
				}
				where := fmt.Sprintf("%s (%d bytes, %d segments) damaged by %s, %s loader, older snapshots present: %d", name, len(op.Data), len(op.SnapInfo), d.name, loader, snapsBefore)
				resp, died, msg := probe(files, mm, d.name)
				res.Stats.Images++
				kind := d.name
				for i := 0; i < len(kind); i++ {
					if kind[i] == ':' {
						kind = kind[:i]
						break
					}
				}
				res.Stats.Faults["snapshot-"+kind]++
				if died {
					res.Violation = &Violation{Oracle: "damaged-snapshot-process-died", Msg: where + ": the opening process died: " + tailStr(msg, 1200), Win: op.Win}
				} else if resp.Panic != "" {
					res.Violation = &Violation{Oracle: "damaged-snapshot-panic", Msg: where + ": panic: " + tailStr(resp.Panic, 1200), Win: op.Win}
				} else if resp.AllocBytes > bound {
					res.Violation = &Violation{Oracle: "damaged-snapshot-allocation", Msg: fmt.Sprintf("%s: opening allocated %d bytes (directory holds %d bytes; bound %d)", where, resp.AllocBytes, dirSize(after), bound), Win: op.Win}
				} else if snapsBefore == 0 {
					if resp.ReaderErr == "" {
						res.Violation = &Violation{Oracle: "damaged-snapshot-accepted", Msg: where + ": the damaged file is the only snapshot and OpenReader succeeded with content " + resp.Content.Content().Key(), Win: op.Win}
					}
				} else if resp.ReaderErr != "" {
					res.Violation = &Violation{Oracle: "damaged-snapshot-no-fallback", Msg: where + ": OpenReader failed instead of falling back to the older intact snapshot: " + resp.ReaderErr, Win: op.Win}
				} else if resp.ReadErr != "" {
					res.Violation = &Violation{Oracle: "damaged-snapshot-accepted", Msg: where + ": reading the opened index failed: " + resp.ReadErr, Win: op.Win}
				} else if got := resp.Content.Content().Key(); got != oldKey {
					res.Violation = &Violation{Oracle: "damaged-snapshot-accepted", Msg: fmt.Sprintf("%s: recovered content %s is not the older intact snapshot's %s (the damaged file was accepted)", where, got, oldKey), Win: op.Win}
				}
				if res.Violation != nil {
					if r.t.trace {
						keepImage(&Image{Files: files}, res)
					}
					res.Extra["damage"] = d.name
					return
				}
			}
		}
		res.Extra["damaged_files"] = toF(res.Extra["damaged_files"]) + float64(len(ds))
	}
}

func toF(v any) float64 {
	f, _ := v.(float64)
	return f
}
