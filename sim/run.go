package sim

import (
	"fmt"
	"os"
	"path/filepath"
	"runtime"
	"sort"
	"strings"
	"sync"
	"time"

	"github.com/blugelabs/bluge"
	"github.com/blugelabs/bluge/index"
	"github.com/blugelabs/bluge/index/mergeplan"
)

// Profile is what a check asks of the run engine: the shape of the workload,
// the allowed configurations and which oracles are armed.
type Profile struct {
	Check           string `json:"check"`
	Tier            string `json:"tier"`
	MinClients      int    `json:"min_clients"`
	MaxClients      int    `json:"max_clients"`
	MinOps          int    `json:"min_ops"`
	MaxOps          int    `json:"max_ops"`
	FSOnly          bool   `json:"fs_only,omitempty"`
	SafeOnly        bool   `json:"safe_only,omitempty"`
	Readers         bool   `json:"readers,omitempty"`      // held-reader operations (C04)
	MergeHeavy      bool   `json:"merge_heavy,omitempty"`  // small tiers/floor sizes (C06, C19)
	DeleteBias      bool   `json:"delete_bias,omitempty"`  // aim deletes at segments under merge (C06)
	CloseReopen     bool   `json:"close_reopen,omitempty"` // Close / reopen as client operations
	DupProbe        bool   `json:"dup_probe,omitempty"`    // dedicated same-id-twice probe (C01 known finding)
	Images          bool   `json:"images,omitempty"`       // keep file contents for crash images
	DirInv          bool   `json:"dir_inv,omitempty"`      // C11 invariants after every directory operation
	PlanInv         bool   `json:"plan_inv,omitempty"`     // C19 plan monitors
	Faults          bool   `json:"faults,omitempty"`
	MaxWindows      int    `json:"max_windows"`
	History         bool   `json:"history,omitempty"` // keep invoke/return history (C05)
	ExtRead         bool   `json:"ext_read,omitempty"`
	SmallIDs        bool   `json:"small_ids,omitempty"` // 3..6 shared ids so that batches conflict
	Torn            bool   `json:"torn,omitempty"`      // torn variants of the in-flight persist (C03)
	ForkDepth       int    `json:"fork_depth,omitempty"`
	AckedOnly       bool   `json:"acked_only,omitempty"`  // unsafe mode only with persisted callbacks
	NoMerge         bool   `json:"no_merge,omitempty"`    // no merges at all: many segments per snapshot
	Concurrent      bool   `json:"concurrent,omitempty"`  // C15: release a seeded SET of actors per window (race detector build)
	EarlyClose      bool   `json:"early_close,omitempty"` // C15: Close while background work is in progress
	SharedReads     bool   `json:"shared_reads,omitempty"`
	ForceSegVer     int    `json:"force_seg_ver,omitempty"`
	Unshielded      bool   `json:"unshielded,omitempty"`         // C15 known-finding probe: ice v2 stored-field buffer not serialised
	StatsCalls      bool   `json:"stats_calls,omitempty"`        // C15 known-finding probe: index.Writer.Stats() under concurrency
	Diff            bool   `json:"diff,omitempty"`               // C08: differential comparison with canonical builds
	EarlyCloseOneIn int    `json:"early_close_one_in,omitempty"` // with EarlyClose: one run in n closes early (default 2 in 3)
	AcrossClose     bool   `json:"across_close,omitempty"`       // C04: in half of the runs held Readers stay open over Writer.Close and are read again afterwards
	ForceMem        bool   `json:"force_mem,omitempty"`          // in-memory directory in every run
	Bulk            bool   `json:"bulk,omitempty"`               // now and then one batch of 32-40 documents under a second id space, rewritten as a whole by later bulk batches
	SnapReads       bool   `json:"snap_reads,omitempty"`         // fresh Reader + full read + close as one client operation

	PostRun func(r *Run, res *Result) `json:"-"`
}

// Knobs is the swarm configuration of one run, decoded from the tape.
type Knobs struct {
	Dir           string         `json:"dir"` // fs | mem
	SegVer        int            `json:"seg_ver"`
	Unsafe        bool           `json:"unsafe"`
	KeepN         int            `json:"keep_n"`
	Workers       int            `json:"analysis_workers"`
	MinMemMerge   int            `json:"min_mem_merge"`
	NapMS         int            `json:"nap_ms"`
	NapUnderFiles int            `json:"nap_under_files"`
	MMap          bool           `json:"mmap"`
	EventGates    bool           `json:"event_gates"`
	SegGates      bool           `json:"seg_gates"`
	MidGate       int            `json:"mid_gate"`
	IDSpace       int            `json:"id_space"`
	Clients       int            `json:"clients"`
	Ops           []int          `json:"ops"`
	Tiers         int            `json:"plan_max_per_tier"`
	PerTask       int            `json:"plan_per_task"`
	Floor         int64          `json:"plan_floor"`
	MaxSeg        int64          `json:"plan_max_seg"`
	TierGrowth    float64        `json:"plan_tier_growth"`
	W             map[string]int `json:"weights"`
	Sticky        int            `json:"sticky"`
	PCB           bool           `json:"persisted_callbacks"`
	ReuseBatch    bool           `json:"reuse_batch,omitempty"` // every client keeps one Batch object and Reset()s it between calls
	Geo           bool           `json:"geo"`
	MergeBuf      int            `json:"merge_buf"`
	NoOpt         bool           `json:"no_optimisations"`
}

func pick(t *Tape, label string, vals ...int) int { return vals[t.Draw(len(vals), label)] }

func decodeKnobs(p *Profile, t *Tape) *Knobs {
	k := &Knobs{W: map[string]int{}}
	k.Dir = "fs"
	if !p.FSOnly && t.Chance(1, 4, "k.dir") {
		k.Dir = "mem"
	}
	if p.ForceMem {
		k.Dir = "mem"
	}
	k.SegVer = 1 + t.Draw(2, "k.segver")
	if !p.SafeOnly {
		k.Unsafe = t.Chance(1, 3, "k.unsafe")
	}
	k.PCB = k.Unsafe && t.Chance(2, 3, "k.pcb")
	k.ReuseBatch = t.Chance(1, 3, "k.reusebatch")
	if p.AckedOnly && k.Unsafe {
		k.PCB = true
	}
	k.KeepN = 1 + t.Draw(3, "k.keepn")
	k.Workers = 1 + t.Draw(4, "k.workers")
	k.MinMemMerge = pick(t, "k.minmem", 2, 2, 3, 4, 1000)
	k.NapMS = pick(t, "k.nap", 0, 0, 0, 5, 50)
	k.NapUnderFiles = pick(t, "k.napfiles", 1000, 1000, 6, 10, 0)
	k.MMap = !t.Chance(1, 4, "k.nommap")
	k.EventGates = !t.Chance(1, 4, "k.noeventgates")
	k.SegGates = !t.Chance(1, 5, "k.noseggates")
	k.MidGate = pick(t, "k.midgate", 0, 0, 1, 40)
	if k.Dir == "mem" {
		k.MidGate = 0 // InMemoryDirectory.Persist holds its lock while writing
	}
	k.IDSpace = 3 + t.Draw(8, "k.idspace")
	if p.SmallIDs {
		k.IDSpace = 3 + k.IDSpace%4
	}
	k.Clients = p.MinClients + t.Draw(p.MaxClients-p.MinClients+1, "k.clients")
	for i := 0; i < k.Clients; i++ {
		k.Ops = append(k.Ops, p.MinOps+t.Draw(p.MaxOps-p.MinOps+1, "k.ops"))
	}
	if p.MergeHeavy || t.Chance(1, 2, "k.mergeheavy") {
		k.Tiers = pick(t, "k.tiers", 2, 2, 3)
		k.PerTask = pick(t, "k.pertask", 2, 2, 3, 4, 10)
		k.Floor = int64(pick(t, "k.floor", 1, 2, 4))
		k.MaxSeg = int64(pick(t, "k.maxseg", 20, 40, 200, 5000))
		k.TierGrowth = float64(pick(t, "k.growth", 2, 3, 10))
	} else {
		k.Tiers = pick(t, "k.tiers", 4, 10)
		k.PerTask = pick(t, "k.pertask", 2, 10)
		k.Floor = int64(pick(t, "k.floor", 10, 50))
		k.MaxSeg = int64(pick(t, "k.maxseg", 200, 5000))
		k.TierGrowth = float64(pick(t, "k.growth", 3, 10))
	}
	if p.PlanInv {
		k.SegGates = true // the executed merges are observed at the segment plugin's Merge seam
	}
	if p.ForceSegVer != 0 {
		k.SegVer = p.ForceSegVer
	}
	if p.Concurrent {
		k.MidGate = 0     // a shielded merger parked mid-write would block readers on a plain mutex
		k.SegGates = true // the shield lives in the segment wrapper
		k.EventGates = t.Chance(1, 2, "k.conc.eventgates")
	}
	if p.NoMerge {
		k.Tiers, k.MinMemMerge, k.Unsafe, k.PCB, k.NapMS, k.NapUnderFiles = 100000, 100000, true, false, 0, 100000
		k.SegGates, k.EventGates, k.MidGate, k.Floor = false, false, 0, 1
	}
	k.MergeBuf = pick(t, "k.mergebuf", 1024*1024, 1024*1024, 64, 4096)
	// scheduling weights
	k.W["client"] = pick(t, "k.w.client", 4, 4, 1, 12)
	k.W["persister"] = pick(t, "k.w.persister", 4, 4, 1, 12, 0)
	k.W["merger"] = pick(t, "k.w.merger", 4, 4, 1, 12, 0)
	k.W["introducer"] = pick(t, "k.w.introducer", 4, 1, 12)
	k.Sticky = pick(t, "k.sticky", 0, 0, 4, 7)
	k.Geo = t.Chance(1, 4, "k.geo")
	k.NoOpt = t.Chance(1, 3, "k.noopt")
	return k
}

// Violation is a failed oracle.
type Violation struct {
	Oracle string `json:"oracle"`
	Msg    string `json:"msg"`
	Win    int    `json:"win"`
}

type Op struct {
	Kind  string     `json:"kind"` // open batch reader-open reader-read reader-close
	Batch *BatchSpec `json:"batch,omitempty"`
	Slot  int        `json:"slot,omitempty"`
}

func (o *Op) String() string {
	if o.Batch != nil {
		via := o.Batch.Via
		if via == "" {
			via = "batch"
		}
		return via + " " + o.Batch.String()
	}
	return fmt.Sprintf("%s #%d", o.Kind, o.Slot)
}

type heldReader struct {
	r        *bluge.Reader
	base     *Content
	baseExt  map[string]string
	openWin  int
	reads    int
	sawSteps int // background steps seen since open
	fromDisk bool
}

type client struct {
	idx      int
	name     string
	opsLeft  int
	done     bool
	curBatch *BatchSpec
	reuse    *index.Batch
}

type RunStats struct {
	Windows      int            `json:"windows"`
	DirOps       int            `json:"dir_ops"`
	Batches      int            `json:"batches"`
	MonitorReads int            `json:"monitor_reads"`
	SimMillis    int64          `json:"sim_ms"`
	Probes       map[string]int `json:"probes"`
	Faults       map[string]int `json:"faults,omitempty"`
	SchedSig     uint64         `json:"sched_sig"`
	StateSigs    []uint64       `json:"-"`
	Interleaved  bool           `json:"interleaved"`
	ChainSteps   int            `json:"chain_steps"`
	Images       int            `json:"images,omitempty"`
}

type Run struct {
	p *Profile
	k *Knobs
	t *Tape
	s *Sim

	root  string // scratch root for this run
	dir   string // index directory (fs)
	trace *DirTrace
	cfg   bluge.Config
	w     *bluge.Writer
	wOpen bool

	mu        sync.Mutex // harness state touched by client goroutines
	clients   []*client
	batches   []*BatchSpec
	stored    map[string]map[string]string
	slots     []*heldReader
	viol      *Violation
	asyncErrs int

	chain         *Chain
	returned      []int       // batches whose call returned in the current window
	acks          map[int]int // batch -> window of acknowledgement
	ackErr        map[int]string
	winEvents     []*Event
	opsLog        []string
	sched         []string
	lastRel       string
	nextBatch     int
	bgSinceClient int
	stats         RunStats
	idspace       []string
	bulkN         int // size of the bulk batches of this run (profile flag Bulk), 0 until the first one
	lastMonKey    string
	lastLayout    string
	finalModel    *Model
	hist          []HistOp
	invokeSeq     map[int]int
	stopping      bool
	budgetStop    bool
	parkedLog     []string
	merging       map[string][]string // actor -> ids of live documents in the segments it is merging
	callWin       map[int]int
	prevMonKey    string
	snapReads     []readData

	depth         int
	forkPath      []ForkStep
	startImage    map[string][]byte
	startModel    *Model
	uidPrefix     string
	inheritSegVer int
	plan          *FaultPlan
	faultReplay   *faultCase
	osHook        *OSHook
	commits       int
	commitEpochs  map[string]bool
	tornEpochs    map[uint64]bool
	dirInvSeen    int
	slotBusy      map[int]bool   // slot reserved by an open/close operation in flight (scheduler goroutine only)
	slotOf        map[string]int // client -> slot it reserved
	conc          bool
	closeAfter    int // EarlyClose: start closing after this many client operations (0: at quiescence)
	earlyClosed   bool
	diffQueries   []qSpec
	extQueries    []qSpec
	dupDone       bool
	dupID         string
	reopening     string      // client that is closing and reopening the writer right now
	ackCount      map[int]int // persisted-callback invocations per batch
	closeSpans    [][2]int    // [first, last] window of every Close call
	refAnswers    map[int]*answer
	observations  []Violation // non-fatal observations matched against known findings by the driver
	expectPlan    *mergeplan.MergePlan
	execMerges    []string
	maxEligible   int
	opsIssued     int
	docs          map[string]*DocSpec
	recovered     map[int]*Content // image index -> recovered content (crash oracle)
}

// HistOp is one completed client operation with event-sequence stamps.
type HistOp struct {
	Client int        `json:"client"`
	Call   int        `json:"call"`
	Ret    int        `json:"ret"`
	Kind   string     `json:"kind"`
	Batch  *BatchSpec `json:"batch,omitempty"`
	Read   string     `json:"read,omitempty"` // content key for reads
	Err    string     `json:"err,omitempty"`
}

func (r *Run) probe(name string) {
	if r.conc && r.s != nil && r.s.ActorName() != "" {
		return // no shared mutex between actors under the race detector
	}
	r.mu.Lock()
	r.stats.Probes[name]++
	r.mu.Unlock()
}

func (r *Run) fail(oracle, msg string) {
	r.mu.Lock()
	if r.viol == nil {
		r.viol = &Violation{Oracle: oracle, Msg: msg, Win: r.s.Win}
	}
	r.mu.Unlock()
}

func (r *Run) failed() bool {
	r.mu.Lock()
	defer r.mu.Unlock()
	return r.viol != nil
}

// buildConfig assembles a bluge.Config whose every seam belongs to the
// simulator. All wrappers delegate to the real implementation.
func (r *Run) buildConfig() bluge.Config {
	var cfg bluge.Config
	if r.k.Dir == "mem" {
		mem := index.NewInMemoryDirectory() // one store for the life of the run
		cfg = bluge.DefaultConfigWithDirectory(func() index.Directory { return r.trace.Wrap(mem) })
	} else {
		cfg = bluge.DefaultConfigWithDirectory(func() index.Directory {
			fsd := index.NewFileSystemDirectory(r.dir)
			if !r.k.MMap {
				fsd.SetLoadMMapFunc(index.LoadMMapNever)
			}
			return r.trace.Wrap(fsd)
		})
	}
	ic := cfg.VerifIndexConfig()
	if r.k.SegGates {
		for _, pl := range r.s.GatedPlugins(r.onMerge) {
			ic = ic.WithSegmentPlugin(pl)
		}
	}
	if r.k.SegVer == 2 {
		ic = ic.WithSegmentVersion(2)
	}
	ic.UnsafeBatch = r.k.Unsafe
	ic.NumAnalysisWorkers = r.k.Workers
	ic.MinSegmentsForInMemoryMerge = r.k.MinMemMerge
	ic.PersisterNapTimeMSec = r.k.NapMS
	ic.PersisterNapUnderNumFiles = r.k.NapUnderFiles
	ic.MergeBufferSize = r.k.MergeBuf
	opts := mergeplan.DefaultMergePlanOptions
	opts.MaxSegmentsPerTier = r.k.Tiers
	opts.SegmentsPerMergeTask = r.k.PerTask
	opts.FloorSegmentSize = r.k.Floor
	opts.MaxSegmentSize = r.k.MaxSeg
	opts.TierGrowth = r.k.TierGrowth
	r.installPlanMonitors(&opts)
	ic.MergePlanOptions = opts
	keep := r.k.KeepN
	ic.DeletionPolicyFunc = func() index.DeletionPolicy {
		return &gatedPolicy{inner: index.NewKeepNLatestDeletionPolicy(keep), t: r.trace}
	}
	ic.AsyncError = func(err error) {
		r.mu.Lock()
		r.asyncErrs++
		r.mu.Unlock()
		r.s.Rec("async-error", err.Error(), nil)
	}
	if r.k.EventGates {
		ic.EventCallback = func(e index.Event) {
			r.s.Rec("event", eventName(e.Kind), nil)
			r.s.Gate("event", eventName(e.Kind))
		}
	} else {
		// Client-side events are only recorded (a goroutine parked inside the
		// callback counts as "blocking" for the persister's nap decision).
		// The persister's and merger's progress events stay gates: they
		// separate "woke the other loop" from "went on to the next select",
		// which would otherwise race inside one window.
		ic.EventCallback = func(e index.Event) {
			r.s.Rec("event", eventName(e.Kind), nil)
			if e.Kind == index.EventKindPersisterProgress || e.Kind == index.EventKindMergerProgress {
				r.s.Gate("event", eventName(e.Kind))
			}
		}
	}
	cfg = cfg.VerifWithIndexConfig(ic)
	if r.k.NoOpt {
		cfg = cfg.DisableOptimizeConjunction().DisableOptimizeConjunctionUnadorned().DisableOptimizeDisjunctionUnadorned()
	}
	return cfg
}

func eventName(k int) string {
	switch k {
	case index.EventKindCloseStart:
		return "close-start"
	case index.EventKindClose:
		return "close"
	case index.EventKindMergerProgress:
		return "merger-progress"
	case index.EventKindPersisterProgress:
		return "persister-progress"
	case index.EventKindBatchIntroductionStart:
		return "batch-intro-start"
	case index.EventKindBatchIntroduction:
		return "batch-intro"
	case index.EventKindMergeTaskIntroductionStart:
		return "merge-intro-start"
	case index.EventKindMergeTaskIntroduction:
		return "merge-intro"
	}
	return fmt.Sprintf("event-%d", k)
}

func (r *Run) onMerge(n int, live []uint64, ids []string) {
	if n >= 3 {
		r.probe("merge-3plus-inputs")
	}
	actor := r.s.ActorName()
	if actor == "persister" {
		r.probe("in-memory-merge")
	} else {
		r.probe("file-merge")
	}
	r.mu.Lock()
	r.merging[actor] = ids
	r.mu.Unlock()
}

// ---- clients -------------------------------------------------------------

func (r *Run) clientMain(c *client) {
	r.s.Register(c.name)
	for {
		arg := r.s.Gate("next-op", "")
		op, _ := arg.(*Op)
		if op == nil {
			r.mu.Lock()
			c.done = true
			r.mu.Unlock()
			return
		}
		r.exec(c, op)
	}
}

func (r *Run) exec(c *client, op *Op) {
	defer func() {
		if p := recover(); p != nil {
			r.fail("panic", fmt.Sprintf("%s panicked in %s: %v", c.name, op, p))
		}
	}()
	switch op.Kind {
	case "open":
		r.s.Rec("invoke", "open", nil)
		w, err := bluge.OpenWriter(r.cfg)
		r.s.Rec("return", "open "+errStr(err), nil)
		firedBefore := 0
		for attempt := 0; err != nil && r.p.Faults && attempt < 64; attempt++ {
			// an injected fault while opening must surface as an error of
			// OpenWriter; once the faults stopped, opening must work. Retry
			// only while the failed attempt coincided with a newly fired fault.
			now := r.plan.firedTotal()
			if now == firedBefore {
				break // failed although no fault fired during that attempt
			}
			firedBefore = now
			r.probe("open-failed-under-fault")
			r.s.Rec("invoke", "open (retry)", nil)
			w, err = bluge.OpenWriter(r.cfg)
			r.s.Rec("return", "open "+errStr(err), nil)
		}
		if err != nil {
			r.fail("open", "OpenWriter failed on a fresh/clean directory: "+err.Error())
			return
		}
		r.mu.Lock()
		r.w = w
		r.wOpen = true
		r.mu.Unlock()
	case "batch":
		b := op.Batch
		ib := b.Index()
		if r.k.ReuseBatch && b.Via == "" && !r.conc {
			// the documented way to reuse a Batch: Reset, then fill again
			if c.reuse == nil {
				c.reuse = bluge.NewBatch()
			}
			c.reuse.Reset()
			b.IndexInto(c.reuse)
			ib = c.reuse
			r.probe("batch-object-reused")
		}
		if r.k.PCB {
			n := b.N
			ib.SetPersistedCallback(func(err error) {
				r.s.Rec("ack", fmt.Sprintf("B%d callback %s", n, errStr(err)), ackData{n, err})
			})
		}
		r.s.Rec("invoke", b.String(), b)
		var err error
		switch b.Via {
		case "insert":
			err = r.w.Insert(b.Ops[0].Doc.Bluge())
		case "update":
			err = r.w.Update(bluge.Identifier(b.Ops[0].ID), b.Ops[0].Doc.Bluge())
		case "delete":
			err = r.w.Delete(bluge.Identifier(b.Ops[0].ID))
		default:
			err = r.w.Batch(ib)
		}
		r.s.Rec("return", fmt.Sprintf("B%d %s", b.N, errStr(err)), retData{b.N, err})
	case "snap-read":
		r.s.Rec("invoke", "snap-read", snapInv{c.idx})
		rd, err := r.w.Reader()
		if err != nil {
			r.fail("reader", "Writer.Reader failed: "+err.Error())
			return
		}
		cont, err := ReadAll(rd, r.idspace)
		if err == nil && r.p.ExtRead && r.conc {
			_ = ReadExtRot(rd, c.idx, r.extQueries...) // concurrent searches of every kind on the fresh snapshot
		}
		_ = rd.Close()
		if err != nil {
			r.fail("reader", "reading a fresh reader failed: "+err.Error())
			return
		}
		r.s.Rec("return", "snap-read "+cont.Key(), readData{-1, cont, c.idx})
	case "reopen":
		// clean Close and OpenWriter in the middle of a run (every other
		// client is between two calls; everything returned is acknowledged)
		r.mu.Lock()
		r.wOpen = false
		w := r.w
		r.mu.Unlock()
		r.s.Rec("invoke", "close (reopen)", nil)
		err := w.Close()
		r.s.Rec("return", "close "+errStr(err), nil)
		if err != nil {
			r.fail("close", "Writer.Close returned an error: "+err.Error())
			return
		}
		r.s.Rec("invoke", "open (reopen)", nil)
		w2, err := bluge.OpenWriter(r.cfg)
		r.s.Rec("return", "open "+errStr(err), nil)
		firedBefore := 0
		for attempt := 0; err != nil && r.p.Faults && attempt < 64; attempt++ {
			now := r.plan.firedTotal()
			if now == firedBefore {
				break
			}
			firedBefore = now
			r.probe("open-failed-under-fault")
			r.s.Rec("invoke", "open (retry)", nil)
			w2, err = bluge.OpenWriter(r.cfg)
			r.s.Rec("return", "open "+errStr(err), nil)
		}
		if err != nil {
			r.fail("lock-not-released", "OpenWriter right after Writer.Close failed: "+err.Error())
			return
		}
		r.mu.Lock()
		r.w = w2
		r.wOpen = true
		r.mu.Unlock()
		r.probe("reopened-mid-run")
	case "shared-read":
		r.mu.Lock()
		h := r.slots[op.Slot]
		r.mu.Unlock()
		if h != nil {
			r.rereadHeld(op.Slot, h)
		}
	case "stats":
		iw := r.w.VerifIndexWriter()
		_ = iw.MemoryUsed()
		if r.p.StatsCalls {
			// index.Writer.Stats() copies the counters non-atomically (listed
			// known finding): only the dedicated probe run calls it, so that
			// it cannot mask other races under halt_on_error
			st := iw.Stats()
			if st.TotBatches > uint64(r.nextBatch)+1 {
				r.fail("stats", fmt.Sprintf("Stats().TotBatches=%d exceeds the %d batches ever issued", st.TotBatches, r.nextBatch))
			}
		}
	case "second-writer":
		r.s.Rec("invoke", "second-writer", nil)
		w2, err := bluge.OpenWriter(r.cfg)
		r.s.Rec("return", "second-writer "+errStr(err), nil)
		if err == nil {
			_ = w2.Close()
			r.fail("second-writer-accepted", "a second OpenWriter on a directory whose writer is still open succeeded")
			return
		}
		r.probe("second-writer-refused")
	case "dir-reader-open":
		r.s.Rec("invoke", "dir-reader-open", nil)
		startWin := r.s.Win // OpenReader spans several windows; it owes only what was acknowledged before it started
		rd, err := bluge.OpenReader(r.cfg)
		r.s.Rec("return", "dir-reader-open "+errStr(err), nil)
		if err != nil {
			// opening from disk while the writer removes files may legitimately fail
			r.probe("live-openreader-failed")
			return
		}
		base, err := ReadAll(rd, r.idspace)
		if err != nil {
			r.fail("reader", "first read of a reader opened from the live directory failed: "+err.Error())
			return
		}
		h := &heldReader{r: rd, base: base, openWin: r.s.Win, fromDisk: true}
		if r.p.ExtRead {
			h.baseExt = ReadExt(rd, r.extQueries...)
		}
		r.mu.Lock()
		r.slots[op.Slot] = h
		r.mu.Unlock()
		r.probe("live-openreader")
		r.s.Rec("reader-open", fmt.Sprintf("#%d from disk %s", op.Slot, base.Key()), diskRead{base, startWin})
	case "reader-open":
		rd, err := r.w.Reader()
		if err != nil {
			r.fail("reader", "Writer.Reader failed: "+err.Error())
			return
		}
		base, err := ReadAll(rd, r.idspace)
		if err != nil {
			r.fail("reader", "first read of a fresh reader failed: "+err.Error())
			return
		}
		h := &heldReader{r: rd, base: base, openWin: r.s.Win}
		if r.p.ExtRead {
			h.baseExt = ReadExt(rd, r.extQueries...)
			// asked again at once in another order, while this reader is still
			// the writer's current root (recycled iterators are only used
			// then): the answers must not depend on what was asked before
			for _, rot := range []int{3, 7} {
				if d := diffExt(h.baseExt, ReadExtRot(rd, rot, r.extQueries...)); d != "" {
					r.fail("reader-isolation", fmt.Sprintf("a Reader just obtained from the writer (window %d) answered differently when the same reads were repeated in another order: %s", r.s.Win, d))
					return
				}
			}
		}
		r.mu.Lock()
		r.slots[op.Slot] = h
		r.mu.Unlock()
		r.s.Rec("reader-open", fmt.Sprintf("#%d %s", op.Slot, base.Key()), readData{op.Slot, base, c.idx})
	case "reader-read":
		r.mu.Lock()
		h := r.slots[op.Slot]
		r.mu.Unlock()
		if h == nil {
			return
		}
		r.rereadHeld(op.Slot, h)
	case "reader-close":
		r.mu.Lock()
		h := r.slots[op.Slot]
		r.slots[op.Slot] = nil
		r.mu.Unlock()
		if h == nil {
			return
		}
		r.rereadHeld(op.Slot, h)
		if err := h.r.Close(); err != nil {
			r.fail("reader", "Reader.Close failed: "+err.Error())
		}
		r.s.Rec("reader-close", fmt.Sprintf("#%d", op.Slot), nil)
	}
}

type ackData struct {
	n   int
	err error
}
type retData struct {
	n   int
	err error
}
type readData struct {
	slot   int
	c      *Content
	client int
}
type snapInv struct{ client int }
type diskRead struct {
	c   *Content
	win int
}

func (r *Run) rereadHeld(slot int, h *heldReader) {
	c, err := ReadAll(h.r, r.idspace)
	if err != nil {
		r.fail("reader-isolation", fmt.Sprintf("held reader #%d (opened in window %d): read failed: %v", slot, h.openWin, err))
		return
	}
	if d := SameContent(h.base, c); d != "" {
		r.fail("reader-isolation", fmt.Sprintf("held reader #%d (opened in window %d) changed: %s", slot, h.openWin, d))
		return
	}
	if h.baseExt != nil {
		ext := ReadExtRot(h.r, r.s.Win, r.extQueries...) // same reads in another order: answers must not depend on search history
		if d := diffExt(h.baseExt, ext); d != "" {
			r.fail("reader-isolation", fmt.Sprintf("held reader #%d (opened in window %d) changed: %s", slot, h.openWin, d))
			return
		}
	}
	if r.conc {
		return // several clients may read one reader at once: no shared bookkeeping
	}
	h.reads++
	if r.s.Win > h.openWin+1 {
		r.probe("reader-reread")
	}
	r.s.Rec("reader-read", fmt.Sprintf("#%d ok", slot), nil)
}

// ---- operation generation (scheduler goroutine only) -----------------------

func (r *Run) genBatch(c *client) *BatchSpec {
	t := r.t
	b := &BatchSpec{N: r.nextBatch, Client: c.idx}
	r.nextBatch++
	mergingNow := map[string]bool{}
	for _, id := range r.mergingIDs(nil) {
		mergingNow[id] = true
	}
	mk := func(kind int, id string, opno int) BatchOp {
		op := BatchOp{Kind: kind, ID: id}
		if kind != OpInsert && mergingNow[id] {
			r.stats.Probes["delete-into-merge-window"]++
		}
		if kind != OpDelete {
			op.Doc = genDoc(t, id, fmt.Sprintf("%sc%d.b%d.o%d", r.uidPrefix, c.idx, b.N, opno), r.k.Geo)
			r.stored[op.Doc.UID] = op.Doc.Stored()
			r.docs[op.Doc.UID] = op.Doc
		}
		return op
	}
	kindOf := func() int {
		switch v := t.Draw(20, "op.kind"); {
		case v < 7:
			return OpInsert
		case v < 15:
			return OpUpdate
		default:
			return OpDelete
		}
	}
	idOf := func(used map[string]bool) string {
		// prefer ids that hold documents in segments under merge (C06 bias)
		if r.p.DeleteBias {
			if ids := r.mergingIDs(used); len(ids) > 0 && t.Chance(3, 4, "op.bias") {
				return ids[t.Draw(len(ids), "op.bias.id")]
			}
		}
		for tries := 0; tries < 8; tries++ {
			id := r.idspace[t.Draw(len(r.idspace), "op.id")]
			if !used[id] {
				return id
			}
		}
		return ""
	}
	if r.p.NoMerge {
		// many live segments: single inserts, now and then an update so that
		// older segments carry deleted bitmaps
		kind := OpInsert
		if t.Chance(1, 10, "op.nm.update") {
			kind = OpUpdate
		}
		// every batch inserts one document under a unique id (it is never
		// deleted, so its segment stays) and updates one or two documents of
		// the small id space: older segments keep a live document and carry a
		// deleted bitmap, so large snapshot files hold many bitmaps
		b.Ops = []BatchOp{mk(OpInsert, fmt.Sprintf("n%04d", b.N), 0)}
		_ = kind
		used := map[string]bool{}
		for j, n := 0, 1+t.Draw(2, "op.nm.n"); j < n; j++ {
			id := r.idspace[t.Draw(len(r.idspace), "op.id")]
			if used[id] {
				continue
			}
			used[id] = true
			b.Ops = append(b.Ops, mk(OpUpdate, id, len(b.Ops)))
		}
		return b
	}
	if r.p.Bulk && t.Chance(1, 5, "op.bulk") {
		// one batch of many documents under an id space of its own; every
		// later bulk batch of the run replaces all of them at once, so a whole
		// segment is obsoleted by one batch of equal size (held readers of the
		// older snapshots must keep their answers)
		if r.bulkN == 0 {
			r.bulkN = 32 + t.Draw(9, "op.bulk.n")
		} else {
			r.probe("bulk-rewrite-of-whole-segment")
		}
		for i := 0; i < r.bulkN; i++ {
			b.Ops = append(b.Ops, mk(OpUpdate, fmt.Sprintf("k%02d", i), i))
		}
		return b
	}
	if r.p.DupProbe && !r.dupDone && b.N >= 2 && t.Chance(1, 3, "op.dup") {
		// the dedicated known-finding probe: the same id in two operations
		// of one batch (never generated anywhere else)
		r.dupDone = true
		id := r.idspace[t.Draw(len(r.idspace), "op.id")]
		b.Ops = []BatchOp{mk(OpUpdate, id, 0), mk(OpUpdate, id, 1)}
		r.dupID = id
		return b
	}
	if t.Chance(3, 10, "op.single") {
		kind := kindOf()
		id := idOf(map[string]bool{})
		b.Ops = []BatchOp{mk(kind, id, 0)}
		b.Via = []string{"insert", "update", "delete"}[kind]
		return b
	}
	n := t.Draw(7, "batch.size")
	if r.p.DeleteBias && t.Chance(1, 3, "batch.deleteall") {
		// delete every document of the segments under merge
		used := map[string]bool{}
		for _, id := range r.mergingIDs(used) {
			used[id] = true
			b.Ops = append(b.Ops, mk(OpDelete, id, len(b.Ops)))
		}
		if len(b.Ops) > 0 {
			return b
		}
	}
	used := map[string]bool{}
	for i := 0; i < n; i++ {
		id := idOf(used)
		if id == "" {
			break
		}
		used[id] = true
		kind := kindOf()
		if kind == OpInsert && !r.p.DupProbe && t.Chance(1, 8, "op.insdel") {
			// Insert and Delete of one id in one batch, in either order: the
			// batch names the id once; it removes older copies and adds its
			// own document, whatever the order of the two calls
			if t.Chance(1, 2, "op.insdel.order") {
				b.Ops = append(b.Ops, mk(OpDelete, id, len(b.Ops)), mk(OpInsert, id, len(b.Ops)+1))
			} else {
				b.Ops = append(b.Ops, mk(OpInsert, id, len(b.Ops)), mk(OpDelete, id, len(b.Ops)+1))
			}
			r.probe("insert-and-delete-of-one-id-in-a-batch")
			continue
		}
		b.Ops = append(b.Ops, mk(kind, id, len(b.Ops)))
	}
	return b
}

func (r *Run) genOp(c *client) *Op {
	t := r.t
	if r.p.Readers {
		free, held := -1, []int{}
		for i, h := range r.slots { // scheduler goroutine at a quiescent point: no lock needed
			if h == nil {
				if free < 0 && !r.slotBusy[i] {
					free = i
				}
			} else if !r.slotBusy[i] {
				held = append(held, i)
			}
		}
		if r.p.SharedReads {
			var any []int
			for i, h := range r.slots {
				if h != nil && (!r.slotBusy[i]) {
					any = append(any, i)
				}
			}
			switch v := t.Draw(10, "op.shared"); {
			case v < 4 && len(any) > 0:
				return &Op{Kind: "shared-read", Slot: any[t.Draw(len(any), "op.slot")]}
			case v == 4:
				return &Op{Kind: "stats"}
			}
		}
		switch v := t.Draw(10, "op.class"); {
		case v == 6 && r.p.DirInv && r.k.Dir == "fs" && t.Chance(1, 2, "op.second"):
			return &Op{Kind: "second-writer"}
		case v == 6 && r.p.DirInv && r.k.Dir == "fs" && free >= 0:
			return &Op{Kind: "dir-reader-open", Slot: free}
		case v == 7 && free >= 0:
			return &Op{Kind: "reader-open", Slot: free}
		case v == 8 && len(held) > 0:
			return &Op{Kind: "reader-read", Slot: held[t.Draw(len(held), "op.slot")]}
		case v == 9 && len(held) > 0:
			return &Op{Kind: "reader-close", Slot: held[t.Draw(len(held), "op.slot")]}
		}
	}
	if r.p.CloseReopen && r.k.Dir == "fs" && !r.conc && r.reopening == "" && r.othersBetweenCalls(c) && r.allReturnedAcked() && t.Chance(1, 10, "op.reopen") {
		r.reopening = c.name
		return &Op{Kind: "reopen"}
	}
	if r.p.History && t.Chance(1, 4, "op.snapread") {
		return &Op{Kind: "snap-read"}
	}
	if r.p.SnapReads && t.Chance(1, 3, "op.snapread") {
		// several clients take Writer.Reader() in one window: concurrent
		// searches on one FRESH root snapshot (first use of its caches)
		return &Op{Kind: "snap-read"}
	}
	return &Op{Kind: "batch", Batch: r.genBatch(c)}
}

// clearMerging forgets a merge once its actor has moved past the introduction.
func (r *Run) clearMerging() {
	r.mu.Lock()
	defer r.mu.Unlock()
	if len(r.merging) == 0 {
		return
	}
	for _, p := range r.s.parkedSnapshot() {
		if _, ok := r.merging[p.actor]; !ok {
			continue
		}
		switch {
		case p.actor == "persister" && p.label == "dir.persist" && strings.HasSuffix(p.detail, ".snp"),
			p.label == "event" && (p.detail == "merger-progress" || p.detail == "persister-progress" || p.detail == "merge-intro"),
			p.label == "plan.calcBudget", p.label == "policy.commit", p.label == "dir.stats":
			delete(r.merging, p.actor)
		}
	}
}

// mergingIDs returns the ids of live documents in segments that are being
// merged right now (between the Merge seam and the introduction).
func (r *Run) mergingIDs(used map[string]bool) []string {
	r.mu.Lock()
	defer r.mu.Unlock()
	set := map[string]bool{}
	for _, ids := range r.merging {
		for _, id := range ids {
			if !used[id] {
				set[id] = true
			}
		}
	}
	var rv []string
	for id := range set {
		rv = append(rv, id)
	}
	sort.Strings(rv)
	return rv
}

// ---- scheduler -----------------------------------------------------------

func roleOf(actor string) string {
	if strings.HasPrefix(actor, "client") {
		return "client"
	}
	return actor
}

func (r *Run) choose(P []*parked) *parked {
	t := r.t
	if r.reopening != "" {
		var Q []*parked
		for _, p := range P {
			if p.label == "next-op" && p.actor == r.reopening {
				r.reopening = "" // back between two calls: the reopen is over
			}
		}
		if r.reopening != "" {
			for _, p := range P {
				if p.label != "next-op" {
					Q = append(Q, p)
				}
			}
			if len(Q) > 0 {
				P = Q
			}
		}
	}
	if r.k.Sticky > 0 && r.lastRel != "" {
		for _, p := range P {
			if p.actor == r.lastRel {
				if t.Chance(r.k.Sticky, 8, "sched.sticky") {
					return p
				}
				break
			}
		}
	}
	total := 0
	ws := make([]int, len(P))
	for i, p := range P {
		w, ok := r.k.W[roleOf(p.actor)]
		if !ok {
			w = 4
		}
		ws[i] = w
		total += w
	}
	if total == 0 {
		return P[t.Draw(len(P), "sched.pick")]
	}
	v := t.Draw(total, "sched.pick")
	for i, w := range ws {
		if v < w {
			return P[i]
		}
		v -= w
	}
	return P[len(P)-1]
}

func (r *Run) allClientsDone() bool {
	r.mu.Lock()
	defer r.mu.Unlock()
	for _, c := range r.clients {
		if !c.done {
			return false
		}
	}
	return true
}

// step releases p (generating the next operation if p is a client waiting
// for one) and runs one window.
func (r *Run) release(p *parked) {
	r.s.NextWindow()
	r.s.Release(p, r.prepare(p))
}

// prepare does the scheduler-side work of releasing p (generating the next
// operation of a client that waits for one) and returns the argument to
// release it with. Nothing runs concurrently with prepare.
func (r *Run) prepare(p *parked) any {
	var arg any
	if p.label == "next-op" {
		if slot, ok := r.slotOf[p.actor]; ok { // its previous operation has returned
			delete(r.slotBusy, slot)
			delete(r.slotOf, p.actor)
		}
		var c *client
		for _, cc := range r.clients {
			if cc.name == p.actor {
				c = cc
			}
		}
		if r.closeAfter > 0 && r.opsIssued >= r.closeAfter {
			r.stopping = true
		}
		if c != nil && c.opsLeft > 0 && !r.stopping {
			c.opsLeft--
			op := r.genOp(c)
			if op.Kind == "reader-open" || op.Kind == "dir-reader-open" || op.Kind == "reader-close" {
				r.slotBusy[op.Slot] = true
				r.slotOf[c.name] = op.Slot
			}
			r.opsIssued++
			arg = op
			r.opsLog = append(r.opsLog, fmt.Sprintf("w%d %s: %s", r.s.Win+1, c.name, op))
			if r.bgSinceClient > 0 {
				r.stats.Interleaved = true
			}
			r.bgSinceClient = 0
		}
	} else if !strings.HasPrefix(p.actor, "client") {
		r.bgSinceClient++
	}
	r.lastRel = p.actor
	r.stats.SchedSig = mix64(r.stats.SchedSig, hashStr(p.sig()))
	if len(r.sched) < 4000 {
		r.sched = append(r.sched, p.actor+":"+p.label)
	}
	return arg
}

func hashStr(s string) uint64 {
	h := uint64(14695981039346656037)
	for i := 0; i < len(s); i++ {
		h ^= uint64(s[i])
		h *= 1099511628211
	}
	return h
}

// runLoop schedules until every client finished and the system is idle, or a
// violation / budget stop.
func (r *Run) runLoop(until func() bool) {
	napTried := false
	for {
		P := r.s.Quiesce()
		r.stats.Windows = r.s.Win
		r.afterWindow()
		if r.failed() {
			return
		}
		if until != nil && until() {
			return
		}
		if len(P) == 0 {
			if r.allClientsDone() && (r.k.NapMS == 0 || napTried) {
				return
			}
			if r.k.NapMS > 0 && !napTried {
				napTried = true
				r.s.NextWindow()
				r.s.Advance(time.Duration(r.k.NapMS) * time.Millisecond)
				r.probe("nap-timer-fired")
				continue
			}
			r.fail("hang", "every goroutine is blocked, nothing is parked at a gate and no timer is pending, but client operations have not returned: "+r.pendingOps())
			return
		}
		napTried = false
		if r.s.Win >= r.p.MaxWindows {
			r.budgetStop = true
			return
		}
		if r.k.NapMS > 0 && r.t.Chance(1, 10, "sched.clock") {
			r.s.NextWindow()
			r.s.Advance(time.Duration(r.k.NapMS) * time.Millisecond)
			continue
		}
		if r.t.trace {
			var all []string
			for _, p := range P {
				all = append(all, p.actor+":"+p.label)
			}
			r.parkedLog = append(r.parkedLog, fmt.Sprintf("w%d %v", r.s.Win, all))
		}
		if r.conc && len(P) > 1 {
			// concurrent window: a seeded set of 2..6 parked actors proceeds at
			// once; regions released together have no happens-before edge
			// between them, so the race detector sees every conflicting pair
			n := 2 + r.t.Draw(5, "sched.setsize")
			if n > len(P) {
				n = len(P)
			}
			rest := append([]*parked(nil), P...)
			r.s.NextWindow()
			var set []*parked
			for k := 0; k < n && len(rest) > 0; k++ {
				p := r.choose(rest)
				for i, q := range rest {
					if q == p {
						rest = append(rest[:i], rest[i+1:]...)
						break
					}
				}
				set = append(set, p)
			}
			// prepare all arguments first (operation generation draws from the
			// tape and must not overlap with running actors), then let go
			args := make([]any, len(set))
			for i, p := range set {
				args[i] = r.prepare(p)
			}
			for i, p := range set {
				r.s.Release(p, args[i])
			}
			r.stats.Probes["concurrent-windows"]++
			continue
		}
		r.release(r.choose(P))
	}
}

func (r *Run) pendingOps() string {
	r.mu.Lock()
	defer r.mu.Unlock()
	var s []string
	for _, c := range r.clients {
		if !c.done {
			s = append(s, c.name)
		}
	}
	return strings.Join(s, ",")
}

// afterWindow runs in the scheduler goroutine at a quiescent point.
func (r *Run) afterWindow() {
	evs := r.winEvents
	r.winEvents = nil
	r.returned = r.returned[:0]
	for _, e := range evs {
		switch d := e.data.(type) {
		case *BatchSpec:
			if e.Kind == "invoke" {
				r.chain.Invoke(d)
				r.batches = append(r.batches, d)
				r.stats.Batches++
				r.invokeSeq[d.N] = e.Seq
				r.callWin[d.Client] = e.Win
			}
		case snapInv:
			r.callWin[d.client] = e.Win
		case diskRead:
			if msg := r.explainDiskRead(d.c, d.win); msg != "" {
				r.fail("live-openreader-content", msg)
			}
		case readData:
			r.snapReads = append(r.snapReads, d)
			if d.slot < 0 && r.p.History {
				r.hist = append(r.hist, HistOp{Client: d.client, Call: 2 * r.callWin[d.client], Ret: 2*e.Win + 1, Kind: "read", Read: d.c.Key()})
			}
		case retData:
			r.returned = append(r.returned, d.n)
			if d.err == nil && !r.k.Unsafe {
				r.acks[d.n] = e.Win
			}
			if d.err != nil {
				r.ackErr[d.n] = d.err.Error()
				if !r.p.Faults {
					r.fail("batch-error", fmt.Sprintf("B%d returned an error without any injected fault: %v", d.n, d.err))
				} else {
					r.stats.Probes["batch-returned-persist-error"]++
				}
			}
			if r.p.History {
				b := r.batchByN(d.n)
				r.hist = append(r.hist, HistOp{Client: b.Client, Call: 2 * r.callWin[b.Client], Ret: 2*e.Win + 1, Kind: "batch", Batch: b, Err: errStr(d.err)})
			}
		case ackData:
			r.ackCount[d.n]++
			if d.err == nil {
				r.acks[d.n] = e.Win
			}
		case *DirOp:
			r.stats.DirOps++
			if d.AfterUnlock && (r.p.DirInv || r.p.EarlyClose) {
				r.fail("lock-released-early", fmt.Sprintf("%s of %s was issued by %s through a writer that had already released the directory lock: the lock was given away while the writer's loops were still at work (a second writer could open meanwhile)", d.Op, fileName(d.Kind, d.ID), d.Actor))
			}
			if d.Op == "persist" && d.Kind == ".snp" && d.PrevExisted && d.Err == "" {
				r.stats.Probes["same-epoch-rewrite-after-recovery"]++
				if len(d.Prev) > len(d.Data) {
					r.stats.Probes["rewrite-over-longer-file"]++
				}
			}
		}
		if e.Kind == "probe" {
			r.stats.Probes[e.Detail]++
		}
		// windows during which a Close is in progress (a background failure
		// then is part of shutting down, not a failure to surface)
		if e.Kind == "invoke" && strings.HasPrefix(e.Detail, "close") {
			r.closeSpans = append(r.closeSpans, [2]int{e.Win, 1 << 30})
		}
		if e.Kind == "return" && strings.HasPrefix(e.Detail, "close") && len(r.closeSpans) > 0 {
			r.closeSpans[len(r.closeSpans)-1][1] = e.Win
		}
	}
	if v := rwViolation.Load(); v != nil && r.p.Check == "C15" {
		r.fail("recursive-read-lock", *v)
	}
	if r.failed() {
		return
	}
	prevKey := r.lastMonKey
	r.monitor()
	if r.failed() {
		return
	}
	for _, sr := range r.snapReads {
		// a Reader obtained inside this window read either the root the
		// window started with or the root it ended with (one release per
		// window; merges and persists do not change content)
		if r.conc {
			// several actors ran in this window: the reader may hold any state
			// the index went through
			ok := false
			for _, e := range r.chain.entries {
				if e.Key == sr.c.Key() {
					ok = true
					break
				}
			}
			if !ok {
				r.fail("reader-prefix", fmt.Sprintf("a Reader obtained by client%d in window %d holds %s, which is not the abstract index after any prefix of the applied batches", sr.client, r.s.Win, sr.c.Key()))
				return
			}
		} else if k := sr.c.Key(); k != prevKey && k != r.lastMonKey {
			r.fail("reader-prefix", fmt.Sprintf("a Reader obtained by client%d in window %d holds %s, which is neither the abstract index before (%s) nor after (%s) that window", sr.client, r.s.Win, k, prevKey, r.lastMonKey))
			return
		}
		if msg := CompareModelDocs(sr.c, r.stored); msg != "" {
			r.fail("reader-prefix", msg)
			return
		}
	}
	r.snapReads = r.snapReads[:0]
	r.clearMerging()
	r.planMonitor(evs)
	if r.failed() {
		return
	}
	r.dirInvariants(evs)
	r.heldReaderProbes(evs)
}

func (r *Run) batchByN(n int) *BatchSpec {
	for _, b := range r.batches {
		if b.N == n {
			return b
		}
	}
	return nil
}

// monitor takes a fresh Reader from the writer, reads it completely and
// explains it against the abstract index.
func (r *Run) monitor() {
	r.mu.Lock()
	w, open := r.w, r.wOpen
	r.mu.Unlock()
	if !open || w == nil {
		return
	}
	rd, err := w.Reader()
	if err != nil {
		r.fail("monitor", "Writer.Reader failed: "+err.Error())
		return
	}
	defer rd.Close()
	infos := rd.VerifSnapshot().VerifSegmentInfos()
	layout := fmt.Sprintf("%d%v", rd.VerifSnapshot().VerifEpoch(), infos)
	if layout == r.lastLayout && len(r.returned) == 0 {
		return // same root snapshot as at the last observation
	}
	r.lastLayout = layout
	r.stats.StateSigs = append(r.stats.StateSigs, hashStr(layoutSig(infos)))
	c, err := ReadAll(rd, r.idspace)
	r.stats.MonitorReads++
	if err != nil {
		r.fail("monitor", "reading a fresh reader failed: "+err.Error())
		return
	}
	if msg := r.chain.Observe(r.s.Win, c.Key(), r.returned); msg != "" {
		r.fail("atomic-batch", msg+"; last ops: "+tail(r.opsLog, 6))
		return
	}
	// exact, document-by-document comparison with an explanation that has
	// this key (all explanations with one key hold the same documents)
	if msg := CompareModel(c, r.chain.Current(), r.stored); msg != "" {
		r.fail("model-equality", msg)
		return
	}
	r.lastMonKey = c.Key()
}

func layoutSig(infos []index.VerifSegmentInfo) string {
	var sb strings.Builder
	for _, i := range infos {
		fmt.Fprintf(&sb, "%v:%d:%d;", i.Persisted, i.Full, i.Deleted)
	}
	return sb.String()
}

func tail(s []string, n int) string {
	if len(s) > n {
		s = s[len(s)-n:]
	}
	return strings.Join(s, " | ")
}

func (r *Run) heldReaderProbes(evs []*Event) {
	r.mu.Lock()
	held := 0
	for _, h := range r.slots {
		if h != nil {
			held++
		}
	}
	r.mu.Unlock()
	if held == 0 {
		return
	}
	for _, e := range evs {
		if e.Kind == "merge" {
			r.stats.Probes["reader-held-across-merge"]++
		}
		if e.Kind == "cleanup" && strings.Contains(e.Detail, "!") {
			r.stats.Probes["remove-refused-while-reader-open"]++
		}
		if e.Kind == "cleanup" && strings.Contains(e.Detail, ".seg ") || strings.HasSuffix(e.Detail, ".seg]") {
			r.stats.Probes["reader-held-across-unlink-of-other-files"]++
		}
	}
}

// ---- life cycle ------------------------------------------------------------

var runCounter int

func newRun(p *Profile, t *Tape, scratch string) *Run {
	runCounter++
	r := &Run{p: p, t: t, stored: map[string]map[string]string{}, acks: map[int]int{}, ackErr: map[int]string{}, invokeSeq: map[int]int{},
		merging: map[string][]string{}, callWin: map[int]int{}, docs: map[string]*DocSpec{}, recovered: map[int]*Content{}, slotBusy: map[int]bool{}, slotOf: map[string]int{}, ackCount: map[int]int{}}
	r.stats.Probes = map[string]int{}
	r.stats.Faults = map[string]int{}
	r.root = filepath.Join(scratch, fmt.Sprintf("run-%d", runCounter))
	_ = os.RemoveAll(r.root) // never start from anything left behind
	r.dir = filepath.Join(r.root, "d0")
	return r
}

// Execute runs one simulated execution inside the current synctest bubble.
func (r *Run) Execute() {
	t := r.t
	r.k = decodeKnobs(r.p, t)
	if r.inheritSegVer != 0 {
		// a recovered index is reopened with the segment format it was
		// written with (a directory holding both formats is outside the
		// properties: ice v2's merger panics on a v1 segment)
		r.k.SegVer = r.inheritSegVer
	}
	runKey := uint64(t.Draw(1<<30, "run.selectkey")) + 1
	r.s = NewSim(runKey)
	r.s.selectGates.Store(true)
	resetRWHook()
	prevSim := curSim.Swap(r.s)
	defer curSim.Store(prevSim)
	r.s.keepLog = 400
	r.conc = r.p.Concurrent
	r.s.quiet = r.conc
	r.s.shieldV2 = r.conc && !r.p.Unshielded
	ecNum, ecDen := 2, 3
	if r.p.EarlyCloseOneIn > 0 {
		ecNum, ecDen = 1, r.p.EarlyCloseOneIn
	}
	if r.p.EarlyClose && t.Chance(ecNum, ecDen, "run.earlyclose") {
		total := 0
		for _, n := range r.k.Ops {
			total += n
		}
		r.closeAfter = 1 + t.Draw(total, "run.closeafter")
	}
	r.s.OnEvent = func(e *Event) { r.winEvents = append(r.winEvents, e) }
	for i := 0; i < r.k.IDSpace; i++ {
		r.idspace = append(r.idspace, fmt.Sprintf("d%02d", i))
	}
	if r.startModel != nil {
		have := map[string]bool{}
		for _, id := range r.idspace {
			have[id] = true
		}
		for _, d := range r.startModel.Live {
			if !have[d.ID] {
				have[d.ID] = true
				r.idspace = append(r.idspace, d.ID)
			}
		}
		sort.Strings(r.idspace)
	}
	path := ""
	if r.k.Dir == "fs" {
		path = r.dir
		_ = os.MkdirAll(r.root, 0700)
		if r.startImage != nil {
			if err := materialize(r.dir, &Image{Files: r.startImage}, true); err != nil {
				r.s = NewSim(runKey)
				r.chain = NewChain(&Model{})
				r.fail("harness", "cannot materialise start image: "+err.Error())
				return
			}
		}
	}
	r.trace = NewDirTrace(r.s, path)
	r.trace.MidGateAfter = r.k.MidGate
	r.trace.ReadBack = r.p.Images && path != ""
	r.trace.plan = r.plan
	if r.p.DeleteBias {
		r.trace.OnPersistSegment = func(ids []string) {
			actor := r.s.ActorName()
			r.mu.Lock()
			r.merging[actor] = append(append([]string(nil), r.merging[actor]...), ids...)
			r.mu.Unlock()
			r.probe("persist-window-opened")
		}
	}
	if path != "" && (r.p.Faults || r.p.DirInv) {
		r.osHook = NewOSHook(r.root)
		r.osHook.record = false
		r.trace.OS = r.osHook
		r.osHook.Install()
	}
	r.cfg = r.buildConfig()
	if r.startModel != nil {
		r.chain = NewChain(r.startModel)
		r.lastMonKey = r.startModel.Key()
	} else {
		r.chain = NewChain(&Model{})
	}
	r.slots = make([]*heldReader, 3)
	if r.p.ExtRead {
		r.extQueries = genQueries(t, 6+t.Draw(6, "ext.nq"), r.k.Geo)
	}

	defer r.teardown()

	// client 0 opens the writer as its first operation
	for i := 0; i < r.k.Clients; i++ {
		r.clients = append(r.clients, &client{idx: i, name: fmt.Sprintf("client%d", i), opsLeft: r.k.Ops[i]})
	}
	c0 := r.clients[0]
	go r.clientMain(c0)
	P := r.s.Quiesce()
	if len(P) != 1 {
		r.fail("harness", "client0 did not park")
		return
	}
	r.s.NextWindow()
	r.s.Release(P[0], &Op{Kind: "open"})
	r.runLoop(func() bool {
		// open finished when client0 is back at next-op
		for _, p := range r.s.parkedSnapshot() {
			if p.actor == "client0" && p.label == "next-op" {
				return true
			}
		}
		return false
	})
	if r.failed() || r.budgetStop {
		return
	}
	for _, c := range r.clients[1:] {
		go r.clientMain(c)
	}
	if r.closeAfter > 0 {
		r.runLoop(func() bool {
			if !r.stopping {
				return false
			}
			for _, c := range r.clients {
				if c.done {
					continue
				}
				parkedAtNext := false
				for _, p := range r.s.parkedSnapshot() {
					if p.actor == c.name && p.label == "next-op" {
						parkedAtNext = true
					}
				}
				if !parkedAtNext {
					return false // a call of this client has not returned yet
				}
			}
			return true
		})
		if r.failed() || r.budgetStop {
			return
		}
		r.earlyClosed = r.stopping
		if r.s.ParkedCount() > len(r.clients) {
			r.stats.Probes["close-while-background-work-in-progress"]++
		}
	} else {
		r.runLoop(nil)
		if r.failed() || r.budgetStop {
			return
		}
	}
	r.quiescentChecks()
}

func (s *Sim) parkedSnapshot() []*parked {
	s.mu.Lock()
	defer s.mu.Unlock()
	return append([]*parked(nil), s.parkedL...)
}

// quiescentChecks: all clients returned, background idle.
func (r *Run) quiescentChecks() {
	st := r.w.VerifIndexWriter().Stats()
	r.stats.Probes["merge-skipped-all-deleted"] += int(st.TotFileMergeIntroductionsObsoleted)
	r.stats.Probes["persister-nap-completed"] += int(st.TotPersisterNapPauseCompleted)
	r.stats.Probes["persister-nap-broken-by-merger"] += int(st.TotPersisterMergerNapBreak)
	r.stats.Probes["persister-paused-for-slow-merger"] += int(st.TotPersisterSlowMergerPause)
	r.stats.Probes["file-merge-empty-segment"] += int(st.TotFileMergeSegmentsEmpty)
	if !r.chain.Unique() {
		r.probe("ambiguous-final-explanation")
	}
	r.finalModel = r.chain.Current()
	if r.k.PCB && !r.earlyClosed {
		// every batch that was applied is acknowledged through its persisted
		// callback exactly once by the time the writer is idle (after a
		// failed persist the callbacks are re-attached to the next success)
		for _, b := range r.batches {
			if r.chain.inflight[b.N] != nil || b.Via != "" {
				continue // Insert/Update/Delete build their own batch: no callback can be attached
			}
			switch n := r.ackCount[b.N]; {
			case n == 0:
				r.fail("callback-lost", fmt.Sprintf("the writer is idle and %s is durable, but its persisted callback was never invoked (%d async errors were reported)", b.String(), r.asyncErrs))
				return
			case n > 1:
				r.fail("callback-twice", fmt.Sprintf("the persisted callback of %s was invoked %d times", b.String(), n))
				return
			}
		}
		r.stats.Probes["callbacks-exactly-once-checked"]++
	}
	if r.dupID != "" {
		// an id written only through Update must have exactly one live document
		onlyUpdates, n := true, 0
		for _, b := range r.batches {
			for _, op := range b.Ops {
				if op.ID == r.dupID && op.Kind == OpInsert {
					onlyUpdates = false
				}
			}
		}
		for _, d := range r.finalModel.Live {
			if d.ID == r.dupID {
				n++
			}
		}
		if onlyUpdates && n > 1 {
			r.observe("dup-id-in-batch", fmt.Sprintf("id %s was written only through Update, but a batch that named it in two Update operations left %d live documents with that id", r.dupID, n))
		}
		r.stats.Probes["dup-id-batches"]++
	}
	if !r.earlyClosed {
		r.quiescentPlanCheck()
		if r.failed() {
			return
		}
	}
	if r.p.Diff {
		r.diffLive()
		if r.failed() {
			return
		}
	}
	// close held readers (re-reading them a last time); with AcrossClose,
	// in half of the runs, only after the writer was closed
	acrossClose := r.p.AcrossClose && r.t.Chance(1, 2, "run.across-close")
	closeHeld := func(probe string) {
		for i, h := range r.slots {
			if h != nil {
				r.rereadHeld(i, h)
				if r.failed() {
					return
				}
				_ = h.r.Close()
				r.slots[i] = nil
				if probe != "" {
					r.stats.Probes[probe]++
				}
			}
		}
	}
	if !acrossClose {
		closeHeld("")
	}
	if r.failed() {
		return
	}
	// Close must terminate: run it as a client action under the scheduler
	closer := &client{idx: 99, name: "closer"}
	closed := false
	var closeErr error
	go func() {
		r.s.Register(closer.name)
		r.s.Gate("close", "")
		r.s.Rec("invoke", "close", nil)
		closeErr = r.w.Close()
		r.s.Rec("return", "close "+errStr(closeErr), nil)
		r.mu.Lock()
		closed = true
		r.wOpen = false
		r.mu.Unlock()
	}()
	r.mu.Lock()
	r.wOpen = false // no monitor reads while closing
	r.mu.Unlock()
	r.runLoopClose(&closed)
	if r.failed() || r.budgetStop {
		return
	}
	if closeErr != nil {
		r.fail("close", "Writer.Close returned an error: "+closeErr.Error())
		return
	}
	if acrossClose {
		// the writer is gone (closed at quiescence, or while merges and
		// persists were in progress): readers obtained from it keep answering
		closeHeld("held-reader-read-after-writer-close")
		if r.failed() {
			return
		}
	}
	r.handleAccounting()
	if r.failed() {
		return
	}
	if r.osHook != nil {
		if open := r.osHook.OpenFiles(); len(open) > 0 {
			sort.Strings(open)
			r.fail("handle-accounting", fmt.Sprintf("after all readers and the writer were closed %d file descriptor(s) under the index directory are still open: %v", len(open), open))
			return
		}
		r.stats.Probes["descriptors-all-closed"]++
	}
	if r.p.DirInv && r.k.Dir == "fs" {
		r.reopenWriterCheck()
		if r.failed() {
			return
		}
	}
	if r.k.Dir == "fs" {
		r.reopenCheck()
		if r.p.Diff && !r.failed() {
			r.diffDisk()
		}
	}
}

func (r *Run) runLoopClose(closed *bool) {
	for {
		P := r.s.Quiesce()
		r.stats.Windows = r.s.Win
		r.afterWindow()
		if r.failed() {
			return
		}
		r.mu.Lock()
		done := *closed
		r.mu.Unlock()
		if done && len(P) == 0 {
			return
		}
		if len(P) == 0 {
			r.fail("close-hang", "Writer.Close did not return: every goroutine is blocked and nothing is parked")
			return
		}
		if r.s.Win >= r.p.MaxWindows+2000 {
			r.budgetStop = true
			return
		}
		r.release(r.choose(P))
	}
}

// reopenCheck opens the closed directory again (scheduler goroutine, gates
// pass through) and compares with the abstract index.
func (r *Run) reopenCheck() {
	rd, err := bluge.OpenReader(r.cfg)
	if err != nil {
		if len(r.batches) == 0 || r.finalModel == nil {
			return
		}
		if r.earlyClosed {
			if len(r.acks) > 0 {
				r.fail("reopen-after-early-close", fmt.Sprintf("batches %v were acknowledged, but after Close no snapshot can be opened: %v", r.ackedBefore(r.s.Win+1), err))
			}
			return
		}
		// no snapshot at all is legal only if nothing was ever applied
		if r.anyVisibleBatch() {
			r.fail("reopen", "OpenReader after a clean Close failed: "+err.Error())
		}
		return
	}
	c, err := ReadAll(rd, r.idspace)
	_ = rd.Close()
	if err != nil {
		r.fail("reopen", "reading the reopened index failed: "+err.Error())
		return
	}
	if r.earlyClosed {
		// Close came while persists/merges were in progress: everything
		// acknowledged must be there, unacknowledged batches may be missing,
		// and the content must still be a state the index went through
		if msg := r.explainDiskRead(c, r.s.Win+1); msg != "" {
			r.fail("reopen-after-early-close", "index reopened after a Close issued while background work was in progress: "+msg)
		}
		r.stats.Probes["reopened-after-early-close"]++
		return
	}
	if msg := CompareModel(c, r.finalModel, r.stored); msg != "" {
		r.fail("reopen", "index reopened after quiescence and Close differs from the abstract index: "+msg)
	}
}

func (r *Run) anyVisibleBatch() bool {
	for _, b := range r.batches {
		if len(b.Ops) > 0 {
			return true
		}
	}
	return false
}

func (r *Run) handleAccounting() {
	t := r.trace
	t.mu.Lock()
	defer t.mu.Unlock()
	if len(t.violations) > 0 {
		r.fail("handle-accounting", t.violations[0])
		return
	}
	if len(t.openLoads) > 0 {
		var names []string
		for _, n := range t.openLoads {
			names = append(names, n)
		}
		sort.Strings(names)
		r.fail("handle-accounting", fmt.Sprintf("after all readers and the writer were closed %d loaded items were never released: %v", len(names), names))
	}
}

func (r *Run) teardown() {
	r.s.FreeRun()
	r.mu.Lock()
	w, open := r.w, r.wOpen
	slots := r.slots
	r.mu.Unlock()
	for _, h := range slots {
		if h != nil {
			_ = h.r.Close()
		}
	}
	hung := r.viol != nil && (r.viol.Oracle == "hang" || r.viol.Oracle == "close-hang")
	if w != nil && open && !hung {
		_ = w.Close()
	}
	if !hung {
		r.s.Quiesce()
		// OpenWriter starts its analysis workers before Setup/Lock; when one
		// of those fails the workers are never told to stop (goroutine leak,
		// noted in DESIGN.md). Reap them so that the bubble can end.
		q := r.cfg.VerifIndexConfig().AnalysisChan
		for i := 0; i < 64; i++ {
			select {
			case q <- func() { runtime.Goexit() }:
				continue
			default:
			}
			break
		}
		r.s.Quiesce()
	}
	if r.osHook != nil {
		r.osHook.Uninstall()
	}
	r.stats.SimMillis = int64(r.s.simNanos / time.Millisecond)
	r.stats.ChainSteps = r.chain.steps
	if r.chain.multi > 0 {
		r.stats.Probes["multi-batch-window"] += r.chain.multi
	}
	if r.viol == nil || os.Getenv("BSIM_KEEP") == "" {
		_ = os.RemoveAll(r.root)
	}
}

// othersBetweenCalls: every other client is parked waiting for its next
// operation (or finished), i.e. no call is in flight.
func (r *Run) othersBetweenCalls(c *client) bool {
	parked := map[string]bool{}
	for _, p := range r.s.parkedSnapshot() {
		if p.label == "next-op" {
			parked[p.actor] = true
		}
	}
	for _, o := range r.clients {
		if o == c || o.done {
			continue
		}
		if !parked[o.name] {
			return false
		}
	}
	return true
}

// allReturnedAcked: every batch that returned without error has been
// acknowledged as durable (safe mode: by returning; unsafe: by its callback).
func (r *Run) allReturnedAcked() bool {
	if r.k.Unsafe && !r.k.PCB {
		return false
	}
	for _, b := range r.batches {
		if _, ok := r.acks[b.N]; !ok {
			if _, failed := r.ackErr[b.N]; failed {
				return false // its error return leaves durability open
			}
			if r.chain.inflight[b.N] != nil {
				return false
			}
			if r.k.Unsafe {
				return false // includes Insert/Update/Delete calls, which cannot carry a callback
			}
		}
	}
	return true
}
