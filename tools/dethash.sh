#!/bin/bash
# dethash.sh <check> [w1] [w2]: two sweeps with different worker counts, compare per-job log hashes
c=$1; w1=${2:-16}; w2=${3:-7}
export GOFLAGS=-mod=mod GOPROXY=off GOSUMDB=off GOTOOLCHAIN=local
rm -f /tmp/h_a.txt /tmp/h_b.txt
VCHECK_DUMP_HASHES=/tmp/h_a.txt /verif/vcheck $c -tier quick --no-evidence -workers $w1 2>&1 | tail -1 | cut -c1-160
VCHECK_DUMP_HASHES=/tmp/h_b.txt /verif/vcheck $c -tier quick --no-evidence -workers $w2 2>&1 | tail -1 | cut -c1-160
sort -n /tmp/h_a.txt > /tmp/h_a.s; sort -n /tmp/h_b.txt > /tmp/h_b.s
join -j1 <(awk '{print $1, $4 "_" $5 "_" $6}' /tmp/h_a.s | sort) <(awk '{print $1, $4 "_" $5 "_" $6}' /tmp/h_b.s | sort) | awk '$2!=$3' > /tmp/h_diff.txt
echo "$c: jobs $(wc -l < /tmp/h_a.s)/$(wc -l < /tmp/h_b.s), divergent: $(wc -l < /tmp/h_diff.txt)"; head -5 /tmp/h_diff.txt
