package sim

// One integer decides everything: VERIF_SEED seeds a splitmix64 stream, every
// choice of a run is one Draw appended to the choice tape, and a run is a pure
// function of (tape, code). Replays read the tape back; a tape that is
// exhausted (after shrinking) yields 0 = "first option / no fault / smallest".

type RNG struct{ s uint64 }

func NewRNG(seed uint64) *RNG { return &RNG{s: seed*0x9e3779b97f4a7c15 + 0x1234567} }

func (r *RNG) Next() uint64 {
	r.s += 0x9e3779b97f4a7c15
	z := r.s
	z = (z ^ (z >> 30)) * 0xbf58476d1ce4e5b9
	z = (z ^ (z >> 27)) * 0x94d049bb133111eb
	return z ^ (z >> 31)
}

func mix64(a, b uint64) uint64 {
	z := a + b*0x9e3779b97f4a7c15 + 0x632be59bd9b4e019
	z = (z ^ (z >> 30)) * 0xbf58476d1ce4e5b9
	z = (z ^ (z >> 27)) * 0x94d049bb133111eb
	return z ^ (z >> 31)
}

type Tape struct {
	in     []uint32 // values to replay (may be shorter than what the run needs)
	out    []uint32 // values actually used by this run (normalised)
	labels []string // parallel to out when tracing
	rng    *RNG     // nil in pure replay mode
	trace  bool
}

func NewSearchTape(seed uint64) *Tape { return &Tape{rng: NewRNG(seed)} }

func NewReplayTape(vals []uint32) *Tape { return &Tape{in: vals} }

// Draw returns a value in [0,n). n <= 1 consumes nothing.
func (t *Tape) Draw(n int, label string) int {
	if n <= 1 {
		return 0
	}
	var v uint32
	pos := len(t.out)
	switch {
	case pos < len(t.in):
		v = t.in[pos] % uint32(n)
	case t.rng != nil:
		v = uint32(t.rng.Next() % uint64(n))
	default:
		v = 0
	}
	t.out = append(t.out, v)
	if t.trace {
		t.labels = append(t.labels, label)
	}
	return int(v)
}

// Chance returns true with probability num/den. A zero draw (what shrinking
// converges to) is always false, so Chance guards the unusual branch.
func (t *Tape) Chance(num, den int, label string) bool {
	return t.Draw(den, label) >= den-num
}

func (t *Tape) Used() []uint32 { return t.out }
