#!/bin/bash
# try_seeded_wt.sh <name> <check> [extra vcheck args]: runs the check's quick tier against the scratch worktree
# /tmp/mut/<name> (which holds the seeded change, uncommitted) without touching /repo; build output goes to
# /tmp/mut/build-<name> and is removed afterwards.
n="${1:?name}"; c="${2:?check}"; shift 2
export GOFLAGS=-mod=mod GOPROXY=off GOSUMDB=off GOTOOLCHAIN=local
VCHECK_REPO="/tmp/mut/${n}" VCHECK_BUILD="/tmp/mut/build-${n}" /verif/vcheck "$c" -tier quick --no-evidence "$@" 2>&1 | grep -v "^event\|^op " | cut -c1-700 | tail -8
rm -rf "/tmp/mut/build-${n:?}"
