#!/usr/bin/env python3
"""Writes /verif/MANIFEST.json from the table below (single source of truth)."""
import json, subprocess

NA = {
 "C07": "pure function of (corpus, query): no schedule, clock, fault or interleaving in it, so deterministic simulation does not apply; its layout-dependent part (live vs deleted documents across multi-segment layouts, for generated queries of every type) is exercised by C08/C01/C06 (DESIGN.md section 5)",
 "C09": "pure function of the match list and (n, from, sort, after): nothing to schedule or fault; layout independence of sorted results is covered by C08 (DESIGN.md section 5)",
 "C10": "pure arithmetic on int64/float64 values and intervals: no concurrency, time, I/O or history (DESIGN.md section 5)",
 "C16": "pure function of the match set and the aggregation request; layout independence of aggregation results is covered by C08 (DESIGN.md section 5)",
 "C17": "pure arithmetic on term/collection statistics and explanation trees (DESIGN.md section 5)",
 "C18": "pure functions of a byte string (analyzers, tokenizers, filters): no I/O or shared state (DESIGN.md section 5)",
 "C20": "pure function of stored text and term locations (DESIGN.md section 5)",
}

CHECKS = {
 "C01": dict(level="exploration", ref="3/C01",
   text="Seeded search over simulated runs of the real writer (introducer, persister, merger, deletion policy, FileSystemDirectory/InMemoryDirectory, ice v1/v2) under a gate scheduler: a generated single-client history meets many physical segmentations, and after every window in which the root changed a fresh Reader is compared document by document (Count, match-all, lookup by _id, stored fields) with the abstract index. Sampling, not proof; the right level because the property quantifies over histories x schedules x configurations.",
   note="Trusted: the gate wrappers delegate faithfully; the abstract index (40 lines) is the specification; runs are sampled by seed.",
   technique="deterministic simulation: seeded gate scheduler over the real writer, abstract-index oracle after every window"),
 "C02": dict(level="fault_enumeration", ref="3/C02",
   text="Runs are sampled by seed; within every run the crash instants are enumerated completely: the directory image after each mutating directory operation, torn variants of the persist in flight and subsets of each unordered remove group. Every distinct image is recovered by the real open path in a child process and must contain each batch acknowledged in an earlier scheduler window and equal an abstract state the index went through. Enumeration of crash points is the right level for 'whatever instant the process dies afterwards'.",
   note="Trusted: a file is durable once Persist returned (decided by C13); acknowledgements are ordered against directory operations at window granularity (an ack in the same window as an operation is treated as after it, which is sound); runs themselves are sampled.",
   technique="deterministic simulation + crash-point enumeration: recorded directory trace -> images -> recovery in a child process, durability oracle against the abstract index"),
 "C03": dict(level="fault_enumeration", ref="3/C03",
   text="As C02 with the whole torn-variant set (prefix lengths, zero-filled, stale tail) and crash / recover / continue / crash sequences: seeded images of each run are continued by a further simulated run whose own trace is enumerated again (depth 2, thorough 3). Per image: the opening process neither dies nor panics, open succeeds whenever a snapshot had been completed, recovered content is exactly one prefix state, the recovered writer accepts a batch that survives close and reopen.",
   note="Trusted: torn-write model = prefix / zero-fill / stale tail of the in-flight file, other files intact; the free-running writer probe in the child is a sample, the deterministic continuation is the forked simulated run; a recovered index is reopened with the segment format it was written with.",
   technique="deterministic simulation + torn-write crash enumeration with fork-from-image continuation (depth >= 2), prefix-consistency oracle"),
 "C08": dict(level="exploration", ref="3/C08",
   text="Metamorphic simulation property: the layout is the product of a schedule. The index a seeded simulated run ends with (any segmentation, pending deletions, merged or not, in memory or on disk, ice v1/v2, also through Backup+OpenReader and reopened after Close) must answer 10-19 generated queries of every public query type exactly like canonical builds of the same documents (one batch, permuted, one document per batch with and without merging, other segment format, optimisations off, OfflineWriter, partitioned + MultiSearch): match sets, stored fields, order under a total field sort, aggregations, and the match set again with scoring turned off (score mode none); scores between builds without merged segments or pending deletions (up to floating-point summation order). No reference semantics is needed. Sampling of schedules, corpora and queries.",
   note="Trusted: the abstract index supplies the live documents; scores are compared with a relative tolerance of 1e-12 (summation order depends on document numbering); score differences of the merged build are the listed known finding and only that.",
   technique="deterministic simulation producing layouts + differential (metamorphic) comparison of search answers across build recipes"),
 "C19": dict(level="exploration", ref="3/C19",
   text="Two seeded searches. In situ: in merge-heavy simulated runs the exported planner is run (twice, and on the reversed input) on exactly the persisted segments of the snapshot the real merger is planning on, its result is checked for well-formedness (tasks within the input, disjoint, below the maximum segment size, no member at or above half of it, deterministic) and the merges the merger then executes are compared with those tasks. Sizes only: seeded arrival/deletion/plan-execution histories round the real planner over size stubs with randomised options, same invariants at every step, termination of every planner call (wall-clock guard), fixpoint within 200 rounds once arrivals stop and an independently computed logarithmic staircase bound there (integral and fractional growth factors). Sampling of histories and options, not proof.",
   note="Trusted: the sizes-only half has no scheduler or fault in it (the property's quantifier asks for histories on sizes only); that the real writer is idle with planner work pending until the next batch is legal (the merger is woken only by a completed persist) and is only counted.",
   technique="deterministic simulation with in-situ plan monitors at the planner seam + seeded sizes-only discrete-event histories round the real planner"),
 "C11": dict(level="exploration", ref="3/C11",
   text="Seeded search over simulated runs on the file-system directory with retention N in {1,2,3}, readers held from the writer and from the live directory, second-writer attempts; after every window with a directory mutation the real directory is scanned and every snapshot parsed: retention, no needed segment file missing or successfully removed, every committed snapshot whose file is still on disk keeps its segment files (a concurrent OpenReader can hold a snapshot file across clean-ups, so removals do fail), held readers stable, every loaded item and every descriptor released exactly once by the end, clean Close + OpenWriter also in mid-run, immediate reopen after Close, second writer refused. Invariants are evaluated at every quiescent point of every explored run; runs are sampled.",
   note="Trusted: directory state is observed at window boundaries (one directory operation per window), not in the middle of an operation; handle accounting relies on the Load closer wrapper and the os hook.",
   technique="deterministic simulation: directory/handle/lock invariants evaluated after every directory operation of seeded runs"),
 "C15": dict(level="exploration", ref="3/C15",
   text="Seeded search under a -race build: concurrent windows release a seeded set of 2-6 parked actors at once (batches, several clients searching one shared held Reader and several clients searching a fresh Writer.Reader() at once - first use of a snapshot's caches - incl. optimised conjunction/disjunction and generated queries, stored-field loads, MemoryUsed, reader acquisition, persister, merger, closer) so that overlapping regions carry no happens-before edge and the race detector reports any conflicting pair regardless of real timing; Close is issued at arbitrary scheduled moments once callers have returned and must terminate (deterministic hang verdict; a loop that spins instead of blocking is caught by a wall-clock watchdog in the worker and reported as livelock with the spinning function) and leave a directory that reopens with every acknowledged batch; goroutines of bluge waiting for bluge's own mutexes in a window that never quiesces are reported as lock-deadlock, and the read-lock discipline is an invariant of every run (a goroutine read-locking an RWMutex it already read-holds is reported: recursive-read-lock). One genuine race (ice v2 stored-field buffer) is a listed known finding with a call-site signature, exercised by a dedicated run variant; the Stats() race was repaired.",
   note="Trusted: the race detector (no false positives); which regions overlap is decided by the tape but concurrent windows need not replay exactly, so a race report is the verdict itself; for ice v2 the harness serialises stored-field access (shield) outside the dedicated probe; index.Writer.Stats() is called in one run variant.",
   technique="deterministic simulation with concurrent-window releases under the Go race detector; scheduled Close with bounded-step termination and reopen oracle"),
 "C12": dict(level="fault_enumeration", ref="3/C12",
   text="Storage-corruption fault injection on the snapshot files that simulated runs produce: per chosen file every truncation length, every single-bit flip (sampled on large files in the quick tier), appended tails, zero-fill, garbage and every length field replaced by 2^31..2^64-1, each opened in a child process through the mmap and non-mmap loaders next to older intact snapshots; round trip of every produced snapshot through the exported decoder. Enumeration of the damage space per file, files sampled from runs.",
   note="Trusted: CRC-32 detection guarantees for single-bit flips; allocation is measured as runtime TotalAlloc delta round OpenReader in the child; ids up to 2^64-1 and coverage-guided fuzzing are outside this technique.",
   technique="deterministic simulation producing real snapshot files + enumerated storage-corruption faults recovered in a child process"),
 "C13": dict(level="fault_enumeration", ref="3/C13",
   text="Exhaustive enumeration (about 20 000 cases, seconds) of item sizes x pre-existing file states x item-writer outcomes (ok, error after k bytes, cancellation before/after k bytes) x os-level faults (open, truncate, write short/ENOSPC/EIO after k bytes, fsync, close) for both item kinds against the real FileSystemDirectory over a hooked os package; the oracle compares file bytes, requires a successful Sync after the last write and before success, and requires no residue after failure. The case space of the property's quantifier is finite and enumerated completely.",
   note="Trusted: the os overlay hooks (pass-through unless a fault is armed); boundary set for k instead of every k; single caller.",
   technique="I/O fault injection at the os seam (go build -overlay hook), exhaustive enumeration of fault points against the real directory implementation"),
 "C14": dict(level="fault_enumeration", ref="3/C14",
   text="Base runs sampled by seed; each is re-executed from its own tape with a fault placed on an operation of its recorded directory trace (every operation x placement {before any byte, after a partial write, after the full write, load/remove/list/lock/setup error}; quick tier a seeded subset per base run), plus sticky spans and pairs. Per faulted run: no panic, deterministic no-hang verdict, Batch errors only when a fault fired, AsyncError fired for failed persister/merger steps, monitor and held readers equal the abstract index of applied batches, bounded completion once faults stop (a busy loop is a livelock verdict), every Batch's persisted callback invoked exactly once by the time the writer is idle, the directory invariants of C11 also under injected Remove errors, reopened index equals the abstract index, and crash images during and after the fault pass the C03 oracle. A single injected error on a load inside OpenWriter/OpenReader is the listed known finding (silent fall-back to an older snapshot).",
   note="Trusted: determinism of the prefix up to the faulted operation (self-test); faults are injected at the Directory seam and at the os seam only, never on the harness's own probes; 'surfaced' is checked as 'AsyncError fired at least once when a background step failed'.",
   technique="deterministic simulation: replay of a recorded run with enumerated single/paired/sticky I/O fault placements, containment + bounded-liveness + crash oracles"),
 "C04": dict(level="exploration", ref="3/C04",
   text="Seeded search over simulated runs in which client actors hold several Readers of different ages open while batches, merges, persist swaps, unlinks and Close are scheduled between their reads; the first full read (count, match-all, stored fields, id lookup, sorted top-N over document values, aggregations, dictionary scan, fixed and per-run generated queries of every public type, with scores) is the baseline (checked against the abstract index at acquisition); the reads are repeated at once in rotated order (answers must not depend on search history) and every later read, in yet another order, must be identical, including a last read after Writer.Close returned (Close at quiescence or at an arbitrary moment while merges and persists are in progress); a fault of the process is reported as the violation. Sampling of schedules, not proof.",
   note="Trusted: gate wrappers delegate; regions between gates are atomic w.r.t. other gated actors; reads cover the listed query kinds only.",
   technique="deterministic simulation: held readers re-read across gated background steps, baseline-equality oracle"),
 "C05": dict(level="exploration", ref="3/C05",
   text="Seeded search over schedules of 2-8 client actors on 3-6 shared ids; the stale-obsoletes window is opened at the DocsMatchingTerms seam; each recorded history (Batch calls and Reader contents, stamped with scheduler windows) is decided by porcupine against the abstract index, and every monitor observation must be an atomic application of in-flight batches. Sampling of schedules; each history is decided exactly.",
   note="Trusted: porcupine v1.3.0; window stamps over-approximate concurrency (never claim an order that did not hold); Unknown (timeout) verdicts are counted, not reported.",
   technique="deterministic simulation + linearizability checking (porcupine) of recorded histories against the abstract index"),
 "C06": dict(level="exploration", ref="3/C06",
   text="Seeded search over merge-heavy simulated runs with the generator aiming deletes/updates (and delete-all) at segments that are between their Merge seam and their introduction; the monitor reader must equal the abstract index after every window and the on-disk index after quiescence and Close must equal it too. Sampling of schedules, not proof.",
   note="Trusted: gate wrappers delegate; the Merge seam identifies the merging documents by reading their stored _id.",
   technique="deterministic simulation: merge-phase gates with delete-into-merge bias, abstract-index oracle after every window"),
}

ENGINE = "bsim"

def main():
    hooks = subprocess.run(["git", "-C", "/repo", "log", "--format=%H %s"], capture_output=True, text=True).stdout.splitlines()
    hook_commits = [l.split()[0] for l in hooks if " verif:" in l]
    checks = []
    for pid in sorted(CHECKS):
        c = CHECKS[pid]
        checks.append({
            "property_id": pid,
            "quick_cmd": "./vcheck %s --tier quick" % pid,
            "thorough_cmd": "./vcheck %s --tier thorough" % pid,
            "evidence_file": "/verif/evidence/%s.json" % pid,
            "replay_cmd_template": "./vcheck %s --replay {path}" % pid,
            "engine": ENGINE,
            "level_claimed": {"category": c["level"], "text": c["text"], "design_ref": "DESIGN.md section " + c["ref"]},
            "level_note": c["note"],
            "technique": c["technique"],
        })
    props = [json.loads(l)["id"] for l in open("/verif/properties.jsonl")]
    na = []
    for pid in props:
        if pid in CHECKS:
            continue
        na.append({"property_id": pid, "reason": NA.get(pid, "check not built yet in this revision of /verif (planned: see DESIGN.md section 3)")})
    m = {
        "version": 1,
        "setup_cmd": "./setup.sh",
        "hooks": {
            "guard": "verif",
            "enable": "go1.26.8 test -c -tags verif -overlay build/overlay/overlay.json (the overlay adds seams to the go1.26.8 runtime and os packages that are inert until the simulator installs its functions: select poll order, a hook at the start of multi-case selects of synctest-bubble goroutines, goroutine id, file-operation hook, RWMutex read-lock hook; /repo only gains two new files guarded by //go:build verif)",
            "baseline_off_cmd": "cd /repo && go test -mod=mod -json -vet=off -count=1 -timeout 25m ./...",
            "source_commits": hook_commits,
            "add_only": True,
        },
        "engines": [{"name": ENGINE, "path": "/verif/sim", "serves_properties": sorted(CHECKS),
                     "kind_free_text": "deterministic simulator: real bluge code inside a testing/synctest bubble, seeded gate scheduler, recording/fault-injecting directory, abstract-index reference model, crash images recovered in a child process"}],
        "checks": checks,
        "not_applicable": na,
        "notes": "Exit codes of every command: 0 held, 1 VIOLATION line printed, 2 build/harness trouble. ./vcheck selftest is the determinism self-test (same seeds over the profiles of eleven checks, GOMAXPROCS 1/4/16, separate processes, identical event logs); tools/dethash.sh <check> compares two complete sweeps job by job.",
    }
    json.dump(m, open("/verif/MANIFEST.json", "w"), indent=1)
    print("wrote MANIFEST.json:", len(checks), "checks,", len(na), "not applicable")

if __name__ == "__main__":
    main()
