package sim

import (
	"fmt"
	"io"
	"sort"
	"sync"
	"sync/atomic"

	"github.com/RoaringBitmap/roaring"
	"github.com/blugelabs/bluge/index"
	segment "github.com/blugelabs/bluge_segment_api"
	iceV1 "github.com/blugelabs/ice"
	iceV2 "github.com/blugelabs/ice/v2"
)

// gseg forwards everything to the real ice segment; DocsMatchingTerms is a
// gate (the window between a batch computing its obsoletes and its
// introduction; the introducer's recomputation).
type gseg struct {
	segment.Segment
	sim *Sim
	no  int64
	// shield serialises stored-field access to one ice v2 segment: its
	// decompression buffer is shared and unsynchronised (known finding); the
	// shield keeps that known race from masking unknown ones under
	// GORACE=halt_on_error. It only ever delays, never changes a result.
	shield sync.Mutex
}

func (g *gseg) VisitStoredFields(num uint64, visitor segment.StoredFieldVisitor) error {
	if g.sim.shieldV2 && g.Segment.Version() == 2 {
		g.shield.Lock()
		defer g.shield.Unlock()
	}
	return g.Segment.VisitStoredFields(num, visitor)
}

// shieldedMerger holds the shields of its input segments while it reads them.
type shieldedMerger struct {
	segment.Merger
	in []*gseg
}

func (m *shieldedMerger) WriteTo(w io.Writer, closeCh chan struct{}) (int64, error) {
	for _, g := range m.in {
		g.shield.Lock()
	}
	defer func() {
		for _, g := range m.in {
			g.shield.Unlock()
		}
	}()
	return m.Merger.WriteTo(w, closeCh)
}

func (g *gseg) DocsMatchingTerms(terms []segment.Term) (*roaring.Bitmap, error) {
	g.sim.Gate("seg.docsMatching", "")
	if name := g.sim.ActorName(); name == "introducer" {
		g.sim.Rec("probe", "introducer-recompute-obsoletes", nil)
	}
	return g.Segment.DocsMatchingTerms(terms)
}

var segCounter int64

func (s *Sim) wrapSeg(seg segment.Segment) segment.Segment {
	if seg == nil {
		return nil
	}
	return &gseg{Segment: seg, sim: s, no: atomic.AddInt64(&segCounter, 1)}
}

func unwrapSeg(seg segment.Segment) segment.Segment {
	if g, ok := seg.(*gseg); ok {
		return g.Segment
	}
	return seg
}

func basePlugins() []*index.SegmentPlugin {
	return []*index.SegmentPlugin{
		{Type: iceV1.Type, Version: iceV1.Version, New: iceV1.New, Load: iceV1.Load, Merge: iceV1.Merge},
		{Type: iceV2.Type, Version: iceV2.Version, New: iceV2.New, Load: iceV2.Load, Merge: iceV2.Merge},
	}
}

// GatedPlugins returns wrappers round the two bundled segment plugins.
func (s *Sim) GatedPlugins(onMerge func(n int, live []uint64, ids []string)) []*index.SegmentPlugin {
	var rv []*index.SegmentPlugin
	for _, b := range basePlugins() {
		b := b
		rv = append(rv, &index.SegmentPlugin{
			Type:    b.Type,
			Version: b.Version,
			New: func(docs []segment.Document, norm func(string, int) float32) (segment.Segment, uint64, error) {
				seg, n, err := b.New(docs, norm)
				if err != nil {
					return seg, n, err
				}
				return s.wrapSeg(seg), n, nil
			},
			Load: func(data *segment.Data) (segment.Segment, error) {
				seg, err := b.Load(data)
				if err != nil {
					return nil, err
				}
				return s.wrapSeg(seg), nil
			},
			Merge: func(segs []segment.Segment, drops []*roaring.Bitmap, bufSize int) segment.Merger {
				un := make([]segment.Segment, len(segs))
				live := make([]uint64, len(segs))
				for i, sg := range segs {
					un[i] = unwrapSeg(sg)
					live[i] = sg.Count()
					if i < len(drops) && drops[i] != nil {
						live[i] -= drops[i].GetCardinality()
					}
				}
				s.Rec("merge", fmt.Sprintf("n=%d live=%v", len(segs), live), nil)
				if onMerge != nil {
					idset := map[string]bool{}
					for i, sg := range un {
						for num := uint64(0); num < sg.Count(); num++ {
							if i < len(drops) && drops[i] != nil && drops[i].Contains(uint32(num)) {
								continue
							}
							_ = sg.VisitStoredFields(num, func(f string, v []byte) bool {
								if f == "_id" {
									idset[string(v)] = true
									return false
								}
								return true
							})
						}
					}
					var ids []string
					for id := range idset {
						ids = append(ids, id)
					}
					sort.Strings(ids)
					onMerge(len(segs), live, ids)
				}
				m := b.Merge(un, drops, bufSize)
				if s.shieldV2 && b.Version == 2 {
					var in []*gseg
					for _, sg := range segs {
						if g, ok := sg.(*gseg); ok {
							in = append(in, g)
						}
					}
					sort.Slice(in, func(i, j int) bool { return in[i].no < in[j].no })
					return &shieldedMerger{Merger: m, in: in}
				}
				return m
			},
		})
	}
	return rv
}
