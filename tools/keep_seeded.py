#!/usr/bin/env python3
"""keep_seeded.py <name> <json with fields confirmed/checks>: copies /tmp/mut/<name>-out into /verif/seeded/<name>/ and
extends meta.json with what was confirmed and which checks were run against the change."""
import json, shutil, sys, os
name, extra = sys.argv[1], json.loads(sys.argv[2])
src, dst = f"/tmp/mut/{name}-out", f"/verif/seeded/{name}"
os.makedirs(dst, exist_ok=True)
for f in os.listdir(src):
    if os.path.isfile(os.path.join(src, f)):
        shutil.copy(os.path.join(src, f), os.path.join(dst, f))
m = json.load(open(os.path.join(dst, "meta.json")))
m.update(extra)
json.dump(m, open(os.path.join(dst, "meta.json"), "w"), indent=1)
print("kept", dst, sorted(os.listdir(dst)))
