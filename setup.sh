#!/bin/bash
# Offline setup: generate the toolchain overlay, build the driver and warm the
# build cache (first build of the overlaid standard library takes ~30-60 s).
set -e
export GOFLAGS=-mod=mod GOPROXY=off GOSUMDB=off GOTOOLCHAIN=local
export PATH=/usr/local/bin:/opt/veriftools/go1.26.8/bin:$PATH
cd /verif
mkdir -p build evidence replays
python3 overlay/gen_overlay.py "$(go1.26.8 env GOROOT)" /verif/build/overlay >/dev/null
cd /verif/sim
go1.26.8 build -o /verif/build/vcheck ./cmd/vcheck
go1.26.8 test -c -tags verif -overlay /verif/build/overlay/overlay.json -o /verif/build/bsim.test .
go1.26.8 test -c -race -tags verif -overlay /verif/build/overlay/overlay.json -o /verif/build/bsim.race.test .
echo "setup ok"
