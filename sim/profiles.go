package sim

import (
	"fmt"
	"testing"
)

// CheckDef binds a property id to a run profile (or a special job handler).
type CheckDef struct {
	Profile
	Special func(t *testing.T, job *Job, res *Result) *Result
}

func logHash(s *Sim) string {
	if s.frozen {
		return fmt.Sprintf("%016x/%d", s.schedHash, s.schedEvents)
	}
	return fmt.Sprintf("%016x/%d", s.logHash, s.nEvents)
}

func profileFor(check, tier, variant string) *CheckDef {
	thorough := tier == "thorough"
	d := &CheckDef{}
	d.Check, d.Tier = check, tier
	d.MinClients, d.MaxClients = 1, 1
	d.MinOps, d.MaxOps = 5, 25
	d.MaxWindows = 20000
	switch check {
	case "C01":
		d.CloseReopen = true
		if thorough {
			d.MaxOps = 60
		}
	case "C01dup":
		d.Check = "C01"
		d.DupProbe = true
		d.MinOps, d.MaxOps = 4, 12
	case "C04", "C04mem", "C04bulk":
		// C04mem: the same on the in-memory directory (its segments live in
		// buffers the directory owns; a held reader must survive their removal)
		if check == "C04mem" {
			d.Check, d.ForceMem = "C04", true
		}
		if check == "C04bulk" {
			d.Check, d.Bulk = "C04", true
		}
		d.MinClients, d.MaxClients = 1, 3
		d.MinOps, d.MaxOps = 6, 20
		d.Readers, d.ExtRead = true, true
		d.EarlyClose, d.AcrossClose, d.EarlyCloseOneIn = true, true, 4
		d.FSOnly = variant != "anydir"
		if thorough {
			d.MaxOps = 40
		}
	case "C05":
		d.MinClients, d.MaxClients = 2, 8
		d.MinOps, d.MaxOps = 2, 5
		d.History = true
		d.SmallIDs = true
		d.PostRun = linPostRun
	case "C06":
		d.MinClients, d.MaxClients = 1, 3
		d.MinOps, d.MaxOps = 8, 30
		d.MergeHeavy, d.DeleteBias = true, true
		if thorough {
			d.MaxOps = 60
		}
	case "C02":
		d.MinClients, d.MaxClients = 1, 3
		d.MinOps, d.MaxOps = 4, 14
		d.FSOnly, d.Images, d.AckedOnly, d.Torn = true, true, true, true
		d.CloseReopen = true
		d.PostRun = crashPostRun
		if thorough {
			d.MaxOps = 25
		}
	case "C03":
		d.MinClients, d.MaxClients = 1, 2
		d.MinOps, d.MaxOps = 3, 10
		d.FSOnly, d.Images, d.AckedOnly, d.Torn = true, true, true, true
		d.ForkDepth = 2
		d.CloseReopen = true
		d.PostRun = crashPostRun
		if thorough {
			d.MaxOps = 16
			d.ForkDepth = 3
		}
	case "C15":
		// concurrent windows under the race detector
		d.MinClients, d.MaxClients = 2, 5
		d.MinOps, d.MaxOps = 3, 10
		d.Readers, d.ExtRead, d.SharedReads, d.History = true, true, true, false
		d.Concurrent, d.EarlyClose, d.SnapReads = true, true, true
		d.MaxWindows = 6000
	case "C15close":
		// Close at arbitrary moments, one release per window (replayable)
		d.Check = "C15"
		d.MinClients, d.MaxClients = 1, 3
		d.MinOps, d.MaxOps = 3, 12
		d.FSOnly, d.AckedOnly, d.EarlyClose = true, true, true
		d.MergeHeavy = true
	case "C15knownV2":
		// dedicated probe of the listed ice v2 finding: no shield
		d.Check = "C15"
		d.MinClients, d.MaxClients = 3, 4
		d.MinOps, d.MaxOps = 4, 8
		d.Readers, d.ExtRead, d.SharedReads = true, false, true
		d.Concurrent, d.Unshielded, d.ForceSegVer = true, true, 2
		d.MaxWindows = 4000
	case "C15knownStats":
		// dedicated probe of Stats() under concurrency (was a known finding, repaired by 7d38cc5)
		d.Check = "C15"
		d.MinClients, d.MaxClients = 3, 4
		d.MinOps, d.MaxOps = 4, 8
		d.Readers, d.SharedReads, d.StatsCalls = true, true, true
		d.Concurrent, d.ForceSegVer = true, 1
		d.MaxWindows = 4000
	case "C08", "C08merge":
		d.Check = "C08"
		d.MinClients, d.MaxClients = 1, 2
		d.MinOps, d.MaxOps = 0, 18
		d.Diff = true
		d.MergeHeavy = check == "C08merge"
	case "C19":
		// long merge-heavy runs: the segment count must not grow with the batches
		d.MinClients, d.MaxClients = 1, 2
		d.MinOps, d.MaxOps = 10, 120
		d.FSOnly, d.MergeHeavy, d.PlanInv = true, true, true
		d.MaxWindows = 200000
		if thorough {
			d.MaxOps = 400
		}
	case "C19sizes":
		d.Check = "C19"
		d.Special = c19SizesSpecial
	case "C11":
		d.MinClients, d.MaxClients = 1, 3
		d.MinOps, d.MaxOps = 6, 22
		d.FSOnly, d.Readers, d.DirInv, d.AckedOnly = true, true, true, true
		d.CloseReopen = true
		if thorough {
			d.MaxOps = 45
		}
	case "C12":
		d.MinClients, d.MaxClients = 1, 2
		d.MinOps, d.MaxOps = 3, 12
		d.FSOnly, d.Images = true, true
		d.PostRun = snapPostRun
		if variant == "big" || (variant == "" && false) {
			d.NoMerge = true
		}
	case "C12big":
		d.Check = "C12"
		d.MinClients, d.MaxClients = 1, 1
		d.MinOps, d.MaxOps = 190, 230
		d.FSOnly, d.Images, d.NoMerge = true, true, true
		d.PostRun = snapPostRun
	case "C14":
		d.MinClients, d.MaxClients = 1, 2
		d.MinOps, d.MaxOps = 3, 9
		d.FSOnly, d.Images, d.AckedOnly = true, true, true
		d.Readers = true
		d.CloseReopen = true
		d.DirInv = true // directory invariants also under faults (failed removals are retried, nothing needed is removed)
		d.PostRun = faultPostRun
		if thorough {
			d.MaxOps = 14
		}
	case "C13":
		d.Special = c13Special
	case "selftest":
		d.MinClients, d.MaxClients = 1, 4
		d.MinOps, d.MaxOps = 3, 10
		d.Readers = true
		d.Images = true
	default:
		return nil
	}
	return d
}
