package sim

import (
	"fmt"
	"runtime"
	"sort"
	"strings"
	"sync"
	"sync/atomic"
	"testing/synctest"
	"time"
)

// Event is one entry of the run's event log. Seq numbers are assigned when a
// window is flushed: inside one window events are ordered by actor name and,
// per actor, by program order; windows are totally ordered.
type Event struct {
	Seq    int    `json:"seq"`
	Win    int    `json:"win"`
	Actor  string `json:"actor"`
	Kind   string `json:"kind"`
	Detail string `json:"detail,omitempty"`
	data   any
}

func (e Event) String() string {
	return fmt.Sprintf("%d w%d %s %s %s", e.Seq, e.Win, e.Actor, e.Kind, e.Detail)
}

type parked struct {
	actor, label, detail string
	ch                   chan any
}

func (p *parked) sig() string { return p.actor + ":" + p.label + ":" + p.detail }

// Sim owns every seam: goroutines of the system under test stop at Gate and
// proceed only when the scheduler goroutine releases them.
type Sim struct {
	mu        sync.Mutex
	actors    map[uint64]string
	parkedL   []*parked
	cur       []Event
	Log       []Event
	seq       int
	Win       int
	free      bool
	schedGoid uint64
	runKey    uint64
	keepLog   int // keep only the last keepLog events when > 0
	OnEvent   func(e *Event)
	released  int
	simNanos  time.Duration
	logHash   uint64
	// hash and event count at the moment the gates were switched off
	// selectGates: actors park before every select of package bluge/index
	selectGates atomic.Bool
	schedHash   uint64
	schedEvents int
	frozen      bool
	nEvents   int
	// quiet: under the race detector the harness must not create
	// happens-before edges between actors that the code under test does not
	// have; only operation boundaries are recorded and names are looked up
	// without a shared mutex
	quiet    bool
	actorsQ  sync.Map
	shieldV2 bool
}

func NewSim(runKey uint64) *Sim {
	return &Sim{
		actors:    map[uint64]string{},
		schedGoid: runtime.VerifGoid(),
		runKey:    runKey,
	}
}

// Register names the calling goroutine as an actor.
func (s *Sim) Register(name string) {
	id := runtime.VerifGoid()
	s.actorsQ.Store(id, name)
	s.mu.Lock()
	s.actors[id] = name
	s.mu.Unlock()
}

var roleFuncs = []struct{ suffix, role string }{
	{"(*Writer).introducerLoop", "introducer"},
	{"(*Writer).persisterLoop", "persister"},
	{"(*Writer).mergerLoop", "merger"},
	{"index.analysisWorker", "analysis"},
}

func roleFromStack() string {
	var pcs [64]uintptr
	n := runtime.Callers(2, pcs[:])
	frames := runtime.CallersFrames(pcs[:n])
	for {
		fr, more := frames.Next()
		for _, rf := range roleFuncs {
			if strings.HasSuffix(fr.Function, rf.suffix) {
				return rf.role
			}
		}
		if !more {
			break
		}
	}
	return ""
}

// ActorName returns the role of the calling goroutine, or "" when it is not
// an actor (the scheduler itself, helper goroutines of a search, ...).
func (s *Sim) ActorName() string {
	id := runtime.VerifGoid()
	if id == s.schedGoid {
		return ""
	}
	if s.quiet {
		if v, ok := s.actorsQ.Load(id); ok {
			return v.(string)
		}
		name := roleFromStack()
		if name == "analysis" {
			name = ""
		}
		s.actorsQ.Store(id, name)
		return name
	}
	s.mu.Lock()
	name, ok := s.actors[id]
	s.mu.Unlock()
	if ok {
		return name
	}
	name = roleFromStack()
	if name == "analysis" {
		name = "" // analysis workers are pure per-document functions: not gated
	}
	s.mu.Lock()
	s.actors[id] = name
	s.mu.Unlock()
	return name
}

// Gate parks the calling actor until the scheduler releases it. It returns
// the argument the scheduler passed at release. Non-actors pass through.
func (s *Sim) Gate(label, detail string) any {
	name := s.ActorName()
	if name == "" {
		return nil
	}
	s.mu.Lock()
	if s.free {
		s.mu.Unlock()
		return nil
	}
	p := &parked{actor: name, label: label, detail: detail, ch: make(chan any, 1)}
	s.parkedL = append(s.parkedL, p)
	s.mu.Unlock()
	return <-p.ch
}

// Rec appends an event to the current window.
func (s *Sim) Rec(kind, detail string, data any) {
	if s.quiet && kind != "invoke" && kind != "return" && kind != "ack" && kind != "reader-open" && kind != "dir" {
		return
	}
	name := s.ActorName()
	if name == "" {
		name = "~sched"
	}
	s.mu.Lock()
	s.cur = append(s.cur, Event{Actor: name, Kind: kind, Detail: detail, data: data})
	s.mu.Unlock()
}

// RecAs records an event under an explicit actor name.
func (s *Sim) RecAs(actor, kind, detail string, data any) {
	s.mu.Lock()
	s.cur = append(s.cur, Event{Actor: actor, Kind: kind, Detail: detail, data: data})
	s.mu.Unlock()
}

// Quiesce waits until every goroutine of the bubble is durably blocked,
// flushes the window's events and returns the parked actors sorted by name.
// heartbeat is bumped every time the bubble reaches quiescence; the worker's
// wall-clock watchdog (outside the bubble) reads it.
var heartbeat atomic.Int64

// preWait is bumped by the scheduler right before it waits for quiescence:
// everything it wrote so far happens-before a watchdog that loads it.
var preWait atomic.Int64

func (s *Sim) Quiesce() []*parked {
	preWait.Add(1)
	synctest.Wait()
	heartbeat.Add(1)
	s.mu.Lock()
	cur := s.cur
	s.cur = nil
	pl := append([]*parked(nil), s.parkedL...)
	s.mu.Unlock()
	sort.SliceStable(cur, func(i, j int) bool { return cur[i].Actor < cur[j].Actor })
	for i := range cur {
		s.seq++
		cur[i].Seq = s.seq
		cur[i].Win = s.Win
		s.Log = append(s.Log, cur[i])
		s.logHash = mix64(s.logHash, hashStr(cur[i].String()))
		s.nEvents++
		if s.OnEvent != nil {
			s.OnEvent(&s.Log[len(s.Log)-1])
		}
	}
	if s.keepLog > 0 && len(s.Log) > 2*s.keepLog {
		s.Log = append([]Event(nil), s.Log[len(s.Log)-s.keepLog:]...)
	}
	sort.SliceStable(pl, func(i, j int) bool {
		if pl[i].actor != pl[j].actor {
			return pl[i].actor < pl[j].actor
		}
		return pl[i].label < pl[j].label
	})
	return pl
}

// Release lets one parked actor proceed; this starts a new window.
func (s *Sim) Release(p *parked, arg any) {
	s.mu.Lock()
	for i, q := range s.parkedL {
		if q == p {
			s.parkedL = append(s.parkedL[:i], s.parkedL[i+1:]...)
			break
		}
	}
	s.released++
	s.mu.Unlock()
	p.ch <- arg
}

// NextWindow advances the window counter and re-keys select.
func (s *Sim) NextWindow() {
	s.Win++
	k := mix64(s.runKey, uint64(s.Win))
	if k == 0 {
		k = 1
	}
	runtime.VerifSetSelectKey(k)
}

// Advance moves the simulated clock.
func (s *Sim) Advance(d time.Duration) {
	s.simNanos += d
	time.Sleep(d)
}

// FreeRun switches all gates off and releases everybody (teardown).
func (s *Sim) FreeRun() {
	s.mu.Lock()
	if !s.free {
		// what follows is not scheduled: the determinism hash covers the
		// scheduled part only
		s.schedHash, s.schedEvents, s.frozen = s.logHash, s.nEvents, true
	}
	s.free = true
	pl := s.parkedL
	s.parkedL = nil
	s.mu.Unlock()
	for _, p := range pl {
		p.ch <- nil
	}
}

func (s *Sim) ParkedCount() int {
	s.mu.Lock()
	defer s.mu.Unlock()
	return len(s.parkedL)
}
