#!/bin/bash
# try_seeded.sh <name> <check> [extra vcheck args]: applies /tmp/mut/<name>-out/patch.diff (or seeded/<name>/patch.diff)
# to /repo, runs the check's quick tier without writing evidence, and undoes the change straight afterwards.
n="${1:?name}"; c="${2:?check}"; shift 2
p="/tmp/mut/${n}-out/patch.diff"; [ -f "$p" ] || p="/verif/seeded/${n}/patch.diff"
export GOFLAGS=-mod=mod GOPROXY=off GOSUMDB=off GOTOOLCHAIN=local
[ -z "$(git -C /repo status --short)" ] || { echo "/repo not clean"; exit 2; }
git -C /repo apply "$p" || exit 2
/verif/vcheck "$c" -tier quick --no-evidence "$@" 2>&1 | grep -v "^event" | cut -c1-700 | tail -8
git -C /repo checkout -- .
git -C /repo status --short
rm -f /verif/replays/*.json.tmp
