package sim

import (
	"bufio"
	"encoding/json"
	"fmt"
	"io"
	"log"
	"os"
	"runtime"
	"runtime/debug"
	"testing"
	"testing/synctest"
	"time"
)

// Job is one unit of work handed to a worker by the driver.
type Job struct {
	ID      int      `json:"id"`
	Check   string   `json:"check"`
	Tier    string   `json:"tier"`
	Seed    uint64   `json:"seed"`
	Tape    []uint32 `json:"tape,omitempty"`
	Replay  bool     `json:"replay,omitempty"` // pure replay: an exhausted tape yields 0
	Trace   bool     `json:"trace,omitempty"`  // return decoded schedule, ops, log
	Variant string   `json:"variant,omitempty"`
	Fork    []ForkStep `json:"fork,omitempty"`
}

// Result is what a worker reports for one job.
type Result struct {
	ID         int        `json:"id"`
	Check      string     `json:"check"`
	Seed       uint64     `json:"seed"`
	Violation  *Violation `json:"violation,omitempty"`
	Harness    string     `json:"harness_error,omitempty"`
	BudgetStop bool       `json:"budget_stop,omitempty"`
	Stats      RunStats   `json:"stats"`
	StateSigs  []uint64   `json:"state_sigs,omitempty"`
	Tape       []uint32   `json:"tape,omitempty"`
	Knobs      *Knobs     `json:"knobs,omitempty"`
	Ops        []string   `json:"ops,omitempty"`
	Sched      []string   `json:"sched,omitempty"`
	LogTail    []string   `json:"log_tail,omitempty"`
	Labels     []string   `json:"labels,omitempty"`
	LogHash    string     `json:"log_hash,omitempty"`
	Sample     any        `json:"sample,omitempty"`
	Extra      map[string]any `json:"extra,omitempty"`
	Fatal      bool       `json:"fatal,omitempty"` // worker must be restarted after this job
	Observations []Violation `json:"observations,omitempty"`
}

var scratchRoot string

func TestMain(m *testing.M) {
	log.SetOutput(io.Discard) // bluge logs skipped snapshots; not part of the protocol
	warmGlobals()
	switch os.Getenv("BSIM_MODE") {
	case "prober":
		proberMain()
		return
	}
	os.Exit(m.Run())
}

func scratch() string {
	if scratchRoot == "" {
		base := os.Getenv("BSIM_SCRATCH")
		if base == "" {
			base = "/dev/shm"
		}
		// unique per process AND per start: a worker that was killed leaves
		// its directory behind, and process ids are reused
		scratchRoot = fmt.Sprintf("%s/bsim-%d-%d", base, os.Getpid(), time.Now().UnixNano())
		_ = os.RemoveAll(scratchRoot)
		_ = os.MkdirAll(scratchRoot, 0700)
	}
	return scratchRoot
}

// TestWorker is the simulator's entry point: it reads jobs (one JSON object
// per line) from stdin and answers each with one "@@ {json}" line.
func TestWorker(t *testing.T) {
	if os.Getenv("BSIM_MODE") != "worker" {
		t.Skip("not a worker")
	}
	debug.SetGCPercent(400)
	defer os.RemoveAll(scratch())
	in := bufio.NewReaderSize(os.Stdin, 1<<20)
	out := bufio.NewWriter(os.Stdout)
	for {
		line, err := in.ReadBytes('\n')
		if len(line) > 1 {
			var job Job
			if jerr := json.Unmarshal(line, &job); jerr != nil {
				fmt.Fprintf(out, "@@ {\"harness_error\":%q}\n", jerr.Error())
				out.Flush()
			} else {
				res := runJob(t, &job)
				b, _ := json.Marshal(res)
				out.WriteString("@@ ")
				out.Write(b)
				out.WriteString("\n")
				out.Flush()
				if res.Fatal {
					return
				}
			}
		}
		if err != nil {
			return
		}
	}
}

func runJob(t *testing.T, job *Job) (res *Result) {
	res = &Result{ID: job.ID, Check: job.Check, Seed: job.Seed}
	p := profileFor(job.Check, job.Tier, job.Variant)
	if p == nil {
		res.Harness = "unknown check " + job.Check
		return res
	}
	if p.Special != nil {
		return p.Special(t, job, res)
	}
	var tape *Tape
	if job.Tape != nil {
		tape = NewReplayTape(job.Tape)
		if !job.Replay {
			tape.rng = NewRNG(job.Seed)
		}
	} else {
		tape = NewSearchTape(job.Seed)
	}
	tape.trace = job.Trace
	r := newRun(&p.Profile, tape, scratch())
	r.forkPath = job.Fork
	curT = t
	func() {
		defer func() {
			if pv := recover(); pv != nil {
				msg := fmt.Sprint(pv)
				res.Fatal = true
				if r.viol == nil {
					// a panic that escaped the run: either the bubble's
					// deadlock detector (goroutines left blocked) or a
					// panic in the scheduler goroutine itself
					res.Harness = "panic outside a client operation: " + msg + "\n" + string(debug.Stack())
				}
			}
		}()
		synctest.Test(t, func(t *testing.T) {
			r.Execute()
		})
	}()
	runtime.VerifSetSelectKey(0)
	os.VerifHook = nil
	res.Violation = r.viol
	res.Observations = r.observations
	res.BudgetStop = r.budgetStop
	res.Stats = r.stats
	res.StateSigs = r.stats.StateSigs
	res.Knobs = r.k
	if r.p.PostRun != nil && r.viol == nil && res.Harness == "" && !r.budgetStop {
		r.p.PostRun(r, res)
		res.Stats.Images = r.stats.Images + res.Stats.Images
	}
	if res.Violation != nil || job.Trace {
		res.Tape = tape.Used()
		res.Ops = r.opsLog
		res.Sched = r.sched
		tailN := 60
		if v := os.Getenv("BSIM_LOGTAIL"); v != "" {
			fmt.Sscanf(v, "%d", &tailN) // debugging aid: longer event-log tail in the result
		}
		for _, e := range tailEvents(r.s, tailN) {
			res.LogTail = append(res.LogTail, e.String())
		}
		if job.Trace {
			res.Labels = tape.labels
			if os.Getenv("BSIM_PARKED") != "" {
				res.Extra = map[string]any{"parked": r.parkedLog}
			}
		}
	}
	if job.Trace && r.s != nil {
		res.LogHash = logHash(r.s)
	}
	return res
}

func tailEvents(s *Sim, n int) []Event {
	if s == nil {
		return nil
	}
	l := s.Log
	if len(l) > n {
		l = l[len(l)-n:]
	}
	return l
}
