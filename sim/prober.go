package sim

func proberMain() {}
