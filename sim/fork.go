package sim

import (
	"fmt"
	"sort"
	"strings"
	"testing"
)

// ForkStep selects, for a replay, which crash image of a finished run is
// continued by a further simulated run, and that run's tape.
type ForkStep struct {
	Image int      `json:"image"`
	Tape  []uint32 `json:"tape"`
}

var curT *testing.T

// forkFromImages continues a seeded subset of the crash images of a finished
// run with a new simulated run: a fresh writer opens the image, more
// workload is applied, and that run's own trace is enumerated again
// (crash / recover / continue / crash, depth >= 2).
func forkFromImages(r *Run, res *Result, ims []Image, rng *RNG) {
	var picks []int
	var replayTape []uint32
	if len(r.forkPath) > r.depth {
		fs := r.forkPath[r.depth]
		picks = []int{fs.Image}
		replayTape = fs.Tape
		if replayTape == nil {
			replayTape = []uint32{}
		}
	} else if r.forkPath != nil {
		return // replaying a violation found at a shallower depth
	} else {
		// bias: torn snapshot files, then boundaries right after a snapshot
		// persist or a removal, then anything
		var torn, hot, rest []int
		for i := range ims {
			if r.recovered[i] == nil {
				continue
			}
			switch {
			case ims[i].InSnap:
				torn = append(torn, i)
			case strings.Contains(ims[i].Desc, ".snp") || strings.HasPrefix(ims[i].Desc, "after remove"):
				hot = append(hot, i)
			default:
				rest = append(rest, i)
			}
		}
		n := 2
		if r.p.Tier == "thorough" {
			n = 5
		}
		for k := 0; k < n; k++ {
			var from []int
			switch {
			case k%2 == 0 && len(torn) > 0:
				from = torn
			case len(hot) > 0 && k%3 != 2:
				from = hot
			case len(rest) > 0:
				from = rest
			default:
				from = append(append(torn, hot...), rest...)
			}
			if len(from) == 0 {
				break
			}
			picks = append(picks, from[int(rng.Next()%uint64(len(from)))])
		}
	}
	forks := 0.0
	for _, pi := range picks {
		if pi < 0 || pi >= len(ims) || r.recovered[pi] == nil {
			continue
		}
		if overTime(res) {
			break
		}
		im := &ims[pi]
		rec := r.recovered[pi]
		var tape *Tape
		if replayTape != nil {
			tape = NewReplayTape(replayTape)
		} else {
			tape = NewSearchTape(mix64(res.Seed, uint64(pi)+uint64(r.depth)*7919))
		}
		tape.trace = r.t.trace
		child := newRun(r.p, tape, scratch())
		child.depth = r.depth + 1
		child.forkPath = r.forkPath
		child.startImage = im.Files
		child.uidPrefix = fmt.Sprintf("g%d.", child.depth)
		child.inheritSegVer = r.k.SegVer
		// the abstract index the child starts from: the recovered documents
		start := &Model{}
		for _, d := range rec.Docs {
			spec := r.docs[d.UID]
			if spec == nil {
				continue
			}
			start.Live = append(start.Live, spec)
			child.docs[d.UID] = spec
			child.stored[d.UID] = r.stored[d.UID]
		}
		child.startModel = start
		func() {
			defer func() {
				if pv := recover(); pv != nil {
					res.Fatal = true
					if child.viol == nil {
						res.Harness = fmt.Sprintf("panic in forked run (depth %d, image %d): %v", child.depth, pi, pv)
					}
				}
			}()
			runBubble(curT, child)
		}()
		forks++
		res.Stats.Windows += child.stats.Windows
		res.Stats.DirOps += child.stats.DirOps
		res.Stats.Batches += child.stats.Batches
		for k, v := range child.stats.Probes {
			res.Stats.Probes[k] += v
		}
		cres := &Result{Seed: res.Seed, Check: res.Check, Stats: RunStats{Probes: map[string]int{}}}
		cres.Violation = child.viol
		if child.viol == nil && res.Harness == "" && !child.budgetStop {
			crashPostRun(child, cres)
		}
		res.Stats.Images += cres.Stats.Images
		for k, v := range cres.Extra {
			if f, ok := v.(float64); ok {
				if old, ok := res.Extra[k].(float64); ok {
					res.Extra[k] = old + f
				} else {
					res.Extra[k] = f
				}
			}
		}
		if cres.Violation != nil {
			v := *cres.Violation
			v.Msg = fmt.Sprintf("[after crash/recover at image #%d (%s), continued run depth %d] %s", pi, im.Desc, child.depth, v.Msg)
			res.Violation = &v
			path := []ForkStep{{Image: pi, Tape: tape.Used()}}
			if sub, ok := cres.Extra["fork"].([]ForkStep); ok {
				path = append(path, sub...)
			}
			res.Extra["fork"] = path
			res.Extra["fork_ops"] = child.opsLog
			res.Extra["fork_knobs"] = child.k
			if d, ok := cres.Extra["image_dir"]; ok {
				res.Extra["image_dir"] = d
			}
			var tl []string
			for _, e := range tailEvents(child.s, 40) {
				tl = append(tl, e.String())
			}
			res.Extra["fork_log_tail"] = tl
			break
		}
		if res.Harness != "" {
			break
		}
	}
	res.Extra["forked_runs"] = forks
	_ = sort.Ints
}
