package sim

import (
	"bytes"
	"encoding/binary"
	"fmt"
	"hash/crc32"
	"os"
	"path/filepath"
	"sort"
	"strconv"
	"strings"

	"github.com/blugelabs/bluge"
	"github.com/blugelabs/bluge/index"
)

// ---- C11: no needed file is ever removed; handles and the lock are released --

type snapFile struct {
	epoch    uint64
	loadable bool
	segs     []uint64
	why      string
}

// parseSnapshotFile decodes a snapshot file the way the loader does: exported
// decoder over everything but the trailer, CRC-32 compared with the trailer.
func parseSnapshotFile(data []byte) (segs []uint64, err error) {
	if len(data) < 4 {
		return nil, fmt.Errorf("%d bytes", len(data))
	}
	body := data[:len(data)-4]
	var s index.Snapshot
	if _, err := s.ReadFrom(bytes.NewReader(body)); err != nil {
		return nil, err
	}
	if crc32.ChecksumIEEE(body) != binary.BigEndian.Uint32(data[len(data)-4:]) {
		return nil, fmt.Errorf("CRC mismatch")
	}
	for _, si := range s.VerifSegmentInfos() {
		segs = append(segs, si.ID)
	}
	return segs, nil
}

// scanDir reads the real directory (scheduler goroutine, quiescent point).
func (r *Run) scanDir() (snaps []snapFile, segFiles map[uint64]bool, err error) {
	es, err := os.ReadDir(r.dir)
	if err != nil {
		return nil, nil, err
	}
	segFiles = map[uint64]bool{}
	for _, e := range es {
		name := e.Name()
		ext := filepath.Ext(name)
		id, perr := strconv.ParseUint(strings.TrimSuffix(name, ext), 16, 64)
		if perr != nil {
			continue
		}
		switch ext {
		case ".seg":
			segFiles[id] = true
		case ".snp":
			sf := snapFile{epoch: id}
			data, rerr := os.ReadFile(filepath.Join(r.dir, name))
			if rerr != nil {
				sf.why = rerr.Error()
			} else if segs, perr := parseSnapshotFile(data); perr != nil {
				sf.why = perr.Error()
			} else {
				sf.segs = segs
				sf.loadable = true
			}
			snaps = append(snaps, sf)
		}
	}
	sort.Slice(snaps, func(i, j int) bool { return snaps[i].epoch > snaps[j].epoch })
	for i := range snaps {
		if !snaps[i].loadable {
			continue
		}
		for _, id := range snaps[i].segs {
			if !segFiles[id] {
				snaps[i].loadable = false
				snaps[i].why = fmt.Sprintf("names segment %x whose file is missing", id)
				break
			}
		}
	}
	return snaps, segFiles, nil
}

func (r *Run) dirInvariants(evs []*Event) {
	if !r.p.DirInv || r.k.Dir != "fs" {
		return
	}
	mutated := false
	var removed []*DirOp
	for _, e := range evs {
		if e.Kind == "commit" {
			// distinct epochs: a reopened writer commits the snapshots it loads again
			if r.commitEpochs == nil {
				r.commitEpochs = map[string]bool{}
			}
			r.commitEpochs[e.Detail] = true
			r.commits = len(r.commitEpochs)
		}
		if e.Kind == "return" && strings.HasPrefix(e.Detail, "open ") && strings.TrimSpace(strings.TrimPrefix(e.Detail, "open")) == "" {
			// a writer was (re)opened: its policy was told about every snapshot it loaded
		}
		if d, ok := e.data.(*DirOp); ok && (d.Op == "persist" || d.Op == "remove") {
			mutated = true
			if d.Op == "persist" && d.Kind == ".snp" && (d.Err != "" || d.Inject != "") {
				if r.tornEpochs == nil {
					r.tornEpochs = map[uint64]bool{}
				}
				r.tornEpochs[d.ID] = true
			}
		}
		if e.Kind == "cleanup" {
			mutated = true
		}
	}
	r.trace.mu.Lock()
	for _, op := range r.trace.Ops[r.dirInvSeen:] {
		if op.Op == "remove" && op.Err == "" {
			removed = append(removed, op)
		}
	}
	r.dirInvSeen = len(r.trace.Ops)
	r.trace.mu.Unlock()
	if !mutated && len(removed) == 0 {
		return
	}
	r.stats.Probes["dir-invariant-evaluations"]++
	snaps, segFiles, err := r.scanDir()
	if err != nil {
		r.fail("harness", "cannot scan directory: "+err.Error())
		return
	}
	// (i) retention: once N snapshots were committed, N are loadable
	loadable := 0
	for _, s := range snaps {
		if s.loadable {
			loadable++
		}
	}
	want := r.k.KeepN
	if r.commits < want {
		want = r.commits
	}
	if loadable < want {
		var desc []string
		for _, s := range snaps {
			d := fmt.Sprintf("%x:%v", s.epoch, s.loadable)
			if s.why != "" {
				d += "(" + s.why + ")"
			}
			desc = append(desc, d)
		}
		r.fail("retention", fmt.Sprintf("retention count is %d and %d snapshots were committed, but only %d snapshot(s) on disk are loadable with all their segment files: %v", r.k.KeepN, r.commits, loadable, desc))
		return
	}
	// (i') a committed snapshot that is still on disk keeps all its segment
	// files: clean-up removes a snapshot file first and its segments only
	// afterwards, and keeps them when the snapshot's removal failed
	for _, sf := range snaps {
		if sf.loadable || !r.commitEpochs[fmt.Sprintf("epoch=%d", sf.epoch)] {
			continue
		}
		if r.tornEpochs[sf.epoch] {
			continue // rewritten or damaged by an injected write fault: not a clean-up matter
		}
		r.fail("snapshot-lost-segment", fmt.Sprintf("snapshot %x was committed and its file is still in the directory, but it is no longer loadable: %s", sf.epoch, sf.why))
		return
	}
	// (ii) no file the live state needs was removed
	needed := map[uint64]string{}
	r.mu.Lock()
	w, open := r.w, r.wOpen
	slots := append([]*heldReader(nil), r.slots...)
	r.mu.Unlock()
	if open && w != nil {
		if rd, err := w.Reader(); err == nil {
			for _, si := range rd.VerifSnapshot().VerifSegmentInfos() {
				if si.Persisted {
					needed[si.ID] = "the writer's current root"
				}
			}
			_ = rd.Close()
		}
	}
	for i, h := range slots {
		if h == nil {
			continue
		}
		for _, si := range h.r.VerifSnapshot().VerifSegmentInfos() {
			if si.Persisted {
				needed[si.ID] = fmt.Sprintf("open reader #%d", i)
			}
		}
	}
	for id, who := range needed {
		if !segFiles[id] {
			r.fail("needed-file-removed", fmt.Sprintf("segment file %s is gone from the directory while %s still refers to it", fileName(".seg", id), who))
			return
		}
	}
	for _, op := range removed {
		if op.Kind != ".seg" {
			continue
		}
		if who, ok := needed[op.ID]; ok {
			r.fail("needed-file-removed", fmt.Sprintf("Remove(%s) succeeded while %s still refers to it", fileName(op.Kind, op.ID), who))
			return
		}
		r.stats.Probes["segment-removals-checked"]++
	}
}

// lockChecks: after Close the directory can be reopened at once, and while a
// writer is open a second writer is refused.
func (r *Run) reopenWriterCheck() {
	// the run proper is over (everything is closed): the reopened writer's
	// loops run freely, nothing is left to schedule
	r.s.FreeRun()
	w2, err := bluge.OpenWriter(r.cfg)
	if err != nil {
		r.fail("lock-not-released", "OpenWriter right after Writer.Close failed: "+err.Error())
		return
	}
	settleWriter(w2)
	rd, err := w2.Reader()
	if err == nil {
		c, rerr := ReadAll(rd, r.idspace)
		_ = rd.Close()
		if rerr != nil {
			r.fail("reopen", "reading the reopened writer failed: "+rerr.Error())
		} else if msg := CompareModel(c, r.finalModel, r.stored); msg != "" {
			r.fail("reopen", "writer reopened after Close differs from the abstract index: "+msg)
		}
	}
	if err := w2.Close(); err != nil {
		r.fail("close", "Close of the reopened writer failed: "+err.Error())
	}
	r.stats.Probes["reopened-writer-after-close"]++
}
