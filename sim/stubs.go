package sim

import "github.com/blugelabs/bluge/index/mergeplan"


// installPlanMonitors wraps the planner's option hooks. The CalcBudget
// wrapper is also a gate: the merger parks there after it read the root and
// before it allocates a segment id, so id allocation by the persister and the
// merger can never fall into one window.
func (r *Run) installPlanMonitors(o *mergeplan.Options) {
	o.CalcBudget = func(totalSize int64, firstTierSize int64, oo *mergeplan.Options) int {
		r.s.Gate("plan.calcBudget", "")
		return mergeplan.CalcBudget(totalSize, firstTierSize, oo)
	}
}
