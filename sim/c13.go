package sim

import (
	"bufio"
	"bytes"
	"fmt"
	"io"
	"os"
	"path/filepath"
	"syscall"
	"testing"

	"github.com/blugelabs/bluge/index"
	"github.com/blugelabs/bluge/index/lock"
	segment "github.com/blugelabs/bluge_segment_api"
)

// ---- C13: the FS directory reports success only for durable, exact files ----

// synthItem is an item writer producing size pattern bytes, optionally through
// a 4096-byte bufio.Writer (as Snapshot.WriteTo does), failing after failAt
// bytes or observing cancellation after cancelAt bytes.
type synthItem struct {
	size     int
	buffered bool
	failAt   int // -1: never
	cancelAt int // -1: never (else: closeCh is closed once this many bytes were handed over)
	closeCh  chan struct{}
	handed   int
}

func pattern(n int, salt byte) []byte {
	b := make([]byte, n)
	for i := range b {
		b[i] = byte(i*7) ^ salt ^ byte(i>>8)
	}
	return b
}

var errItem = fmt.Errorf("verif: item writer failed")

func (s *synthItem) WriteTo(w io.Writer, closeCh chan struct{}) (int64, error) {
	data := pattern(s.size, 0x5a)
	var bw *bufio.Writer
	out := w
	if s.buffered {
		bw = bufio.NewWriter(w)
		out = bw
	}
	var n int64
	for off := 0; ; {
		select {
		case <-closeCh:
			return n, segment.ErrClosed
		default:
		}
		if off >= len(data) {
			break
		}
		end := off + 1000
		if end > len(data) {
			end = len(data)
		}
		if s.failAt >= 0 && end > s.failAt {
			if s.failAt > off {
				m, _ := out.Write(data[off:s.failAt])
				n += int64(m)
			}
			if bw != nil {
				_ = bw.Flush()
			}
			return n, errItem
		}
		if s.cancelAt >= 0 && end > s.cancelAt && s.closeCh != nil {
			select {
			case <-s.closeCh:
			default:
				close(s.closeCh)
			}
		}
		m, err := out.Write(data[off:end])
		n += int64(m)
		if err != nil {
			return n, err
		}
		off = end
	}
	if s.failAt >= 0 && s.failAt >= len(data) {
		if bw != nil {
			_ = bw.Flush()
		}
		return n, errItem
	}
	if bw != nil {
		if err := bw.Flush(); err != nil {
			return n, err
		}
	}
	return n, nil
}

type c13Case struct {
	Kind     string `json:"kind"`
	Size     int    `json:"size"`
	Buffered bool   `json:"buffered"`
	Pre      string `json:"pre"` // absent shorter equal longer
	Item     string `json:"item"`
	Fault    string `json:"os_fault"`
}

func c13Special(t *testing.T, job *Job, res *Result) *Result {
	res.Stats.Probes = map[string]int{}
	res.Stats.Faults = map[string]int{}
	res.Extra = map[string]any{}
	root := filepath.Join(scratch(), "c13")
	_ = os.RemoveAll(root)
	_ = os.MkdirAll(root, 0700)
	defer os.RemoveAll(root)
	hook := NewOSHook(root)
	hook.Install()
	defer hook.Uninstall()

	sizes := []int{0, 1, 4095, 4096, 4097, 3*4096 + 5}
	pres := []string{"absent", "shorter", "equal", "longer"}
	kinds := []string{index.ItemKindSegment, index.ItemKindSnapshot}
	cases, nontrivial := 0, 0
	var samples []c13Case
	fail := func(c c13Case, msg string) *Result {
		res.Violation = &Violation{Oracle: "persist-exact-durable", Msg: fmt.Sprintf("%+v: %s", c, msg)}
		res.Extra["case"] = c
		return res
	}
	for _, kind := range kinds {
		for _, size := range sizes {
			ks := boundaryKs(size)
			var items []string
			items = append(items, "ok")
			for _, k := range ks {
				items = append(items, fmt.Sprintf("fail@%d", k))
			}
			items = append(items, "cancel-before")
			for _, k := range ks {
				if k > 0 && k < size {
					items = append(items, fmt.Sprintf("cancel@%d", k))
				}
			}
			var faults []string
			faults = append(faults, "none", "open:EACCES", "open:EMFILE", "truncate:EIO", "sync:EIO", "close:EIO")
			for _, k := range ks {
				faults = append(faults, fmt.Sprintf("write:ENOSPC@%d", k), fmt.Sprintf("write:EIO@%d", k))
			}
			for _, buffered := range []bool{true, false} {
				for _, pre := range pres {
					for _, item := range items {
						for _, fault := range faults {
							c := c13Case{Kind: kind, Size: size, Buffered: buffered, Pre: pre, Item: item, Fault: fault}
							cases++
							if pre != "absent" || item != "ok" || fault != "none" {
								nontrivial++
							}
							if len(samples) < 6 && cases%977 == 1 {
								samples = append(samples, c)
							}
							if msg := runC13Case(root, hook, c, res); msg != "" {
								return fail(c, msg)
							}
						}
					}
				}
			}
		}
	}
	// the item's file is held by another party (a loaded segment keeps a
	// shared lock, a persist in flight an exclusive one): Persist has to fail
	// and must leave that file exactly as it was
	for _, kind := range kinds {
		for _, size := range []int{0, 100, 5000} {
			for _, holder := range []string{"shared", "exclusive"} {
				cases++
				nontrivial++
				c := c13Case{Kind: kind, Size: size, Buffered: true, Pre: "held-" + holder, Item: "ok", Fault: "none"}
				if msg := runC13Held(root, hook, c, holder == "exclusive"); msg != "" {
					return fail(c, msg)
				}
				res.Stats.Probes["persist-over-file-held-by-another-party"]++
			}
		}
	}
	res.Extra["evaluations"] = float64(cases)
	res.Extra["distinct_nontrivial"] = float64(nontrivial)
	res.Extra["exhaustive"] = 1.0
	res.Sample = samples
	return res
}

func boundaryKs(size int) []int {
	set := map[int]bool{}
	for _, k := range []int{0, 1, size / 2, size - 1, size, 4095, 4096, 4097} {
		if k >= 0 && k <= size {
			set[k] = true
		}
	}
	var ks []int
	for k := range set {
		ks = append(ks, k)
	}
	sortInts(ks)
	return ks
}

func sortInts(a []int) {
	for i := 1; i < len(a); i++ {
		for j := i; j > 0 && a[j] < a[j-1]; j-- {
			a[j], a[j-1] = a[j-1], a[j]
		}
	}
}

func errnoOf(s string) syscall.Errno {
	switch s {
	case "EACCES":
		return syscall.EACCES
	case "EMFILE":
		return syscall.EMFILE
	case "ENOSPC":
		return syscall.ENOSPC
	}
	return syscall.EIO
}

func runC13Held(root string, hook *OSHook, c c13Case, exclusive bool) string {
	dir := filepath.Join(root, "d")
	_ = os.RemoveAll(dir)
	if err := os.MkdirAll(dir, 0700); err != nil {
		return "harness: " + err.Error()
	}
	const id = 7
	path := filepath.Join(dir, fileName(c.Kind, id))
	preBytes := pattern(c.Size+37, 0xa1)
	hook.Disarm()
	if err := os.WriteFile(path, preBytes, 0600); err != nil {
		return "harness: " + err.Error()
	}
	var holder lock.LockedFile
	var err error
	if exclusive {
		holder, err = lock.OpenExclusive(path, os.O_RDWR, 0600)
	} else {
		holder, err = lock.OpenShared(path, os.O_RDONLY, 0600)
	}
	if err != nil {
		return "harness: cannot take the holder's lock: " + err.Error()
	}
	defer func() { _ = holder.Close() }()
	item := &synthItem{size: c.Size, buffered: true, failAt: -1, cancelAt: -1}
	item.closeCh = make(chan struct{})
	d := index.NewFileSystemDirectory(dir)
	perr := d.Persist(c.Kind, id, item, item.closeCh)
	got, rerr := os.ReadFile(path)
	if perr == nil {
		return "Persist reported success on an item whose file another party holds locked"
	}
	if rerr != nil {
		return fmt.Sprintf("Persist failed (%v) on an item whose file another party holds locked, and the file is gone: %v", perr, rerr)
	}
	if !bytes.Equal(got, preBytes) {
		return fmt.Sprintf("Persist failed (%v) on an item whose file another party holds locked, but changed that file: %d bytes before, %d after (first difference at %d)", perr, len(preBytes), len(got), firstDiff(got, preBytes))
	}
	return ""
}

func runC13Case(root string, hook *OSHook, c c13Case, res *Result) string {
	dir := filepath.Join(root, "d")
	_ = os.RemoveAll(dir)
	if err := os.MkdirAll(dir, 0700); err != nil {
		return "harness: " + err.Error()
	}
	const id = 7
	path := filepath.Join(dir, fileName(c.Kind, id))
	var preBytes []byte
	switch c.Pre {
	case "shorter":
		preBytes = pattern(c.Size/2, 0xa1)
		if c.Size == 0 {
			preBytes = nil
			c.Pre = "absent"
		}
	case "equal":
		preBytes = pattern(c.Size, 0xa1)
	case "longer":
		preBytes = pattern(c.Size+37, 0xa1)
	}
	hook.Disarm()
	if c.Pre != "absent" {
		if err := os.WriteFile(path, preBytes, 0600); err != nil {
			return "harness: " + err.Error()
		}
	}
	item := &synthItem{size: c.Size, buffered: c.Buffered, failAt: -1, cancelAt: -1}
	closeCh := make(chan struct{})
	item.closeCh = closeCh
	var k int
	switch {
	case c.Item == "ok":
	case c.Item == "cancel-before":
		close(closeCh)
	case len(c.Item) > 5 && c.Item[:5] == "fail@":
		fmt.Sscanf(c.Item[5:], "%d", &k)
		item.failAt = k
	default:
		fmt.Sscanf(c.Item[7:], "%d", &k)
		item.cancelAt = k
	}
	hook.Reset()
	if c.Fault != "none" {
		var op, en string
		after := 0
		for i := 0; i < len(c.Fault); i++ {
			if c.Fault[i] == ':' {
				op = c.Fault[:i]
				en = c.Fault[i+1:]
			}
		}
		for i := 0; i < len(en); i++ {
			if en[i] == '@' {
				fmt.Sscanf(en[i+1:], "%d", &after)
				en = en[:i]
			}
		}
		hook.Arm(&OSFault{Op: op, Suffix: fileName(c.Kind, id), After: after, Errno: errnoOf(en)})
	}
	d := index.NewFileSystemDirectory(dir)
	err := d.Persist(c.Kind, id, item, closeCh)
	fired := hook.Fired()
	hook.Disarm()
	if fired > 0 {
		res.Stats.Faults["os-"+c.Fault[:indexOf(c.Fault, ':')]]++
	}
	got, rerr := os.ReadFile(path)
	exists := rerr == nil
	events := append([]OSEvent(nil), hook.Events...)
	if open := hook.OpenFiles(); len(open) > 0 {
		return fmt.Sprintf("Persist returned with the file still open: %v", open)
	}
	if err == nil {
		want := pattern(c.Size, 0x5a)
		if item.failAt >= 0 || c.Item == "cancel-before" {
			return "Persist reported success although the item writer failed / was cancelled"
		}
		if !exists {
			return "Persist reported success but there is no file"
		}
		if !bytes.Equal(got, want) {
			return fmt.Sprintf("Persist reported success but the file holds %d bytes, the item wrote %d (first difference at %d)", len(got), len(want), firstDiff(got, want))
		}
		// a flush to stable storage after the last byte and before returning
		lastMut, lastSync := -1, -1
		for i, e := range events {
			if e.Name != path {
				continue
			}
			switch e.Op {
			case "write", "writeat", "truncate":
				lastMut = i
			case "sync":
				if !e.Err {
					lastSync = i
				} else {
					return "Persist reported success although the flush to stable storage failed"
				}
			case "close":
				if e.Err {
					return "Persist reported success although closing the file failed"
				}
			}
		}
		if lastSync < 0 {
			return "Persist reported success without flushing the file to stable storage (no Sync)"
		}
		if lastSync < lastMut {
			return "Persist reported success but the last flush was issued before the last write"
		}
		if fired > 0 && c.Fault[:4] != "writ" {
			return "Persist reported success although an injected " + c.Fault + " fired"
		}
		return ""
	}
	// failure or cancellation: nothing may be left under the item's name,
	// except an untouched pre-existing file when the failure came before
	// anything was changed
	if exists {
		touched := false
		for _, e := range events {
			if e.Name == path && (e.Op == "write" || e.Op == "writeat" || e.Op == "truncate") && !e.Inj {
				touched = true
			}
		}
		if touched || !bytes.Equal(got, preBytes) || c.Pre == "absent" {
			return fmt.Sprintf("Persist failed (%v) but left a %d-byte file under the item's name (pre-existing: %s, %d bytes)", err, len(got), c.Pre, len(preBytes))
		}
	}
	return ""
}

func indexOf(s string, b byte) int {
	for i := 0; i < len(s); i++ {
		if s[i] == b {
			return i
		}
	}
	return len(s)
}

func firstDiff(a, b []byte) int {
	for i := 0; i < len(a) && i < len(b); i++ {
		if a[i] != b[i] {
			return i
		}
	}
	if len(a) < len(b) {
		return len(a)
	}
	return len(b)
}
