package main

import (
	"fmt"
	"os"
	"sync"
	"time"
)

var commonAssume = []string{
	"a file is durable once FileSystemDirectory.Persist returned nil (decided separately by C13 at the os seam)",
	"directory entries are durable once the file's fsync returned (bluge never syncs the directory)",
	"regions between two gates run atomically with respect to other gated actors (one release per window); goroutines woken by a release run in parallel until their next gate",
	"the simulator wrappers (recording directory, gated segment plugin, deletion-policy wrapper) delegate to the real implementations",
}

func defFor(check string) *checkDef {
	switch check {
	case "selftest":
		return &checkDef{property: "selftest", selftest: true, budget: map[string]tierCfg{"quick": {220, 300}, "thorough": {1100, 1200}}}
	case "C01", "C01dup":
		return &checkDef{property: "C01", level: "exploration",
			variants: []string{"C01", "C01", "C01", "C01", "C01", "C01", "C01", "C01dup"},
			budget:   map[string]tierCfg{"quick": {3000, 60}, "thorough": {150000, 1500}},
			rule:     "one simulated run per seed: swarm configuration, generated history of batches (insert/update/delete, empty and delete-only batches, ids re-used) from one client, every background step scheduled from the tape; after every window with a changed root a fresh Reader is read completely and compared document by document with the abstract index. distinct = distinct release sequences (hash of actor:gate per window); non-trivial = at least one background step (persister/merger/introducer release) was interleaved between two client operations. Every eighth run is the dedicated probe that issues one batch naming the same id in two Update operations (never generated elsewhere): the listed known finding",
			assume:   commonAssume,
			probes:   []string{"introducer-recompute-obsoletes", "file-merge", "in-memory-merge", "merge-3plus-inputs", "nap-timer-fired", "dup-id-batches"}}
	case "C02":
		return &checkDef{property: "C02", level: "fault_enumeration", timeout: 600 * time.Second,
			budget: map[string]tierCfg{"quick": {400, 80}, "thorough": {20000, 1800}},
			rule:   "runs are sampled by seed (safe mode with 1-3 clients, unsafe mode with persisted callbacks; persister/merger/clean-up interleavings from the tape); within each run EVERY crash instant is enumerated: the directory image after each mutating directory operation, torn variants of the persist in flight (prefix lengths from a boundary set, zero-filled, stale tail) and subsets of each unordered remove group; each distinct image is recovered by the real open path in a child process and must contain every batch acknowledged in an earlier window and equal an abstract state the index went through. evaluations = simulated runs; crash_images_probed = images recovered. distinct = distinct release sequences; non-trivial = a background step interleaved between client operations",
			assume: commonAssume,
			probes: []string{"file-merge", "in-memory-merge"}}
	case "C03":
		return &checkDef{property: "C03", level: "fault_enumeration", timeout: 900 * time.Second,
			budget: map[string]tierCfg{"quick": {250, 90}, "thorough": {10000, 1800}},
			rule:   "as C02 with the whole torn-variant set, plus crash / recover / continue / crash: a seeded subset of the images of each run (biased to torn snapshot files and to instants just after snapshot persists and removals) is continued by a further simulated run with a fresh writer and more workload, whose own trace is enumerated again (depth 2, thorough 3). Oracle per image: the opening process neither dies nor panics, OpenReader/OpenWriter succeed whenever a snapshot had been completed, recovered content = exactly one abstract state (prefix of the applied batches), the recovered writer accepts a batch, reads it back, closes, and the batch survives a reopen",
			assume: commonAssume,
			probes: []string{"same-epoch-rewrite-after-recovery", "file-merge", "in-memory-merge"}}
	case "C15", "C15close", "C15knownV2", "C15knownStats":
		return &checkDef{property: "C15", level: "exploration", race: true, freshProcess: true, timeout: 300 * time.Second,
			env:      []string{"GORACE=halt_on_error=1 exitcode=66"},
			variants: []string{"C15", "C15", "C15close", "C15", "C15knownV2", "C15", "C15close", "C15knownStats"},
			budget:   map[string]tierCfg{"quick": {700, 80}, "thorough": {40000, 1800}},
			rule:     "three kinds of simulated run under a -race build of the simulator, every fourth run in a fresh worker process (lazily initialised process-wide state is untouched there): (a) concurrent windows: every window releases a seeded SET of 2-6 parked actors at once (clients batching, several clients reading one shared held Reader and several clients taking a fresh Writer.Reader() in the same window and searching it at once - first use of a snapshot's caches - through the optimised conjunction/disjunction paths and generated queries of every type, stored-field loads, MemoryUsed(), reader acquisition, persister, merger, closer), so code regions released together have no happens-before edge and any conflicting access pair is reported by the race detector whatever the real timing; the harness is quiet there (no shared mutex between actors); (b) Close at an arbitrary scheduled moment once callers have returned, one release per window (replayable): Close must return (deterministic hang verdict), the three loops must exit, the directory must reopen with every acknowledged batch in a state the index went through; (c) a dedicated unshielded ice-v2 run that exercises the listed known finding; (d) a run of kind (a) whose clients also call Writer.Stats() in the concurrent windows. In all of them the read locks bluge code holds are tracked per goroutine (sync.RWMutex overlay hook): read-locking an RWMutex the goroutine already holds for reading is reported (recursive-read-lock); a window that does not quiesce for 28 s of wall clock is a verdict when a goroutine of bluge/index spins (livelock) or goroutines of bluge wait for bluge's own mutexes (lock-deadlock). distinct = distinct release sequences; non-trivial = background step interleaved between client operations",
			assume:   append([]string{"the Go race detector reports only real races; which regions overlap is decided by the tape, the detector's verdict does not depend on real timing", "for ice v2 segments stored-field access is serialised by the harness wrapper (shield) in (a) so that the listed known race cannot mask others"}, commonAssume...),
			probes:   []string{"concurrent-windows", "close-while-background-work-in-progress", "reopened-after-early-close"}}
	case "C08":
		return &checkDef{property: "C08", level: "exploration", timeout: 300 * time.Second,
			variants: []string{"C08", "C08merge"},
			budget:   map[string]tierCfg{"quick": {700, 75}, "thorough": {40000, 1500}},
			rule:     "one simulated run per seed (0-18 operations per client, so the empty corpus occurs; file-system or in-memory directory, ice v1/v2, safe/unsafe, every second run merge-heavy) ends in build A = whatever layout the schedule produced (segmentation, pending deletions, merged or not); A is also read through Backup + OpenReader and, after Close, reopened from disk. The abstract index's live documents are then written as builds B: one in-memory batch (the reference), a seeded permutation, one document per batch without merges, one per batch with the default merge plan, the other segment format, all three query optimisations disabled, OfflineWriter with a seeded batch size, and partitioned over 2-4 indexes searched with MultiSearch; in half of the runs the offline writer is also compared with the one-batch build on a corpus of its own (9-48 generated documents, 1-3 per offline batch: 3-48 offline segments, across its merge fan-in of 10). For 10-19 seeded queries per run drawn from all public query types (term, match or/and, phrase and multi-phrase with slop, prefix, wildcard, regexp, fuzzy, term/numeric/date ranges with both inclusivities, geo box and distance, match-all/none, booleans nested to depth 2 with must/should/must-not and min-should; plain terms of uid, _id, tag, _all and body aimed at existing documents, and flat conjunctions / disjunctions of 2-4 of them, the shapes the bitmap rewrites take over) every build must give the same match set (by uid), the same stored fields, the same order under the total sort -num,tag,-day,uid and the same aggregations (count, sum, min, max, avg, terms with nested sum); every query is repeated with scoring turned off (SetScore none: unadorned conjunction/disjunction rewrites) and must match the same set as the scored reference; scores are compared exactly between builds without merged segments and without pending deletions; for the merged build a score difference is the listed known finding. distinct = distinct release sequences of run A; non-trivial = background step interleaved between client operations",
			assume:   commonAssume,
			probes:   []string{"diff-reference-builds", "diff-comparisons", "diff-score-comparisons", "diff-score-none-comparisons", "diff-flat-term-conjunction-with-matches", "diff-builds-run-layout", "diff-builds-backup-restored", "diff-builds-reopened-from-disk", "diff-recipe-rounds", "diff-offline-sizes-comparisons", "diff-offline-more-than-10-segments"}}
	case "C08merge":
		return defFor("C08")
	case "C19", "C19sizes":
		return &checkDef{property: "C19", level: "exploration", timeout: 180 * time.Second,
			variants: []string{"C19", "C19sizes", "C19", "C19sizes"},
			budget:   map[string]tierCfg{"quick": {1200, 75}, "thorough": {60000, 1500}},
			rule:     "two kinds of run, alternating. (a) in situ: a merge-heavy simulated run of 10-120 (thorough 400) operations per client on the file-system directory; whenever the real merger is parked inside the planner (CalcBudget seam) the exported planner is run twice (and once on the reversed input) on the persisted segments of the snapshot it plans on: tasks only contain input segments, no segment in two tasks, task live size below the maximum segment size, no member at or above half of it, same result each time; the merges the merger then executes are compared with those tasks; at quiescence (all calls returned, background idle, reached within the window budget) it is measured whether planner work is still pending (the merger is only woken by a completed persist, so this is legal and only counted) and, when none is, that the mergeable segments are within CalcBudget. (b) sizes only: a seeded discrete-event history round the real planner over size stubs (arrivals of small, empty and over-size segments, deletions, execution of returned tasks; option ranges round the defaults, tier growth 1.25-10 including fractional factors; up to thousands of segments): the same invariants at every planning step, then a fixpoint within 200 plan/execute rounds once arrivals stop and the budget bound there. (b) has no scheduler or fault in it; it is included because the property's quantifier names 'simulated histories ... on sizes only'. distinct = distinct release sequences / histories; non-trivial = background step interleaved (a) or at least one task executed (b)",
			assume:   commonAssume,
			probes:   []string{"plans-checked", "plans-with-tasks", "plan-executions-compared", "quiescent-plan-checks", "sizes-only-histories", "sizes-only-300plus-segments", "plan-task-near-size-limit", "segment-too-big-to-merge"}}
	case "C11":
		return &checkDef{property: "C11", level: "exploration",
			budget: map[string]tierCfg{"quick": {2500, 75}, "thorough": {100000, 1500}},
			rule:   "one simulated run per seed on the file-system directory with retention count N in {1,2,3}, 1-3 client actors that also hold Readers (from the writer and from the live directory via OpenReader) open and closed at scheduled instants and attempt a second OpenWriter; after every window containing a directory mutation the real directory is scanned and every snapshot file parsed (exported decoder + CRC): (i) at least min(N, commits) snapshots are loadable with all their segment files, (ii) no segment file that the writer's root or an open reader refers to is missing, and no successful Remove named one, (iii) held readers re-read equal to their baseline, (iv) every closer returned by Load is closed exactly once and no descriptor under the directory is open after the last Close (os seam), (v) OpenWriter right after Close succeeds and shows the abstract index, (vi) a second OpenWriter on the locked directory is refused while the first keeps satisfying the model, (vii) no persist or removal is issued through a writer's directory after that writer released the lock. distinct = distinct release sequences; non-trivial = background step interleaved between client operations",
			assume: commonAssume,
			probes: []string{"dir-invariant-evaluations", "segment-removals-checked", "remove-refused-while-reader-open", "second-writer-refused", "live-openreader", "reopened-writer-after-close", "descriptors-all-closed"}}
	case "C12":
		return &checkDef{property: "C12", level: "fault_enumeration", timeout: 900 * time.Second,
			variants: []string{"C12big", "C12", "C12", "C12", "C12", "C12", "C12", "C12"},
			budget:   map[string]tierCfg{"quick": {40, 50}, "thorough": {3000, 1800}},
			rule:     "storage-corruption fault injection on the snapshot files simulated runs actually produce (0..many segments, with and without deleted bitmaps; every fourth run is a no-merge run of ~200 batches so that the file crosses the 4096-byte read buffer). Round trip: every produced snapshot is decoded with the exported decoder and compared (ids, types, versions, deleted sets) with what was handed to the encoder. Rejection, per chosen file: every truncation length, every single-bit flip (quick tier on files > 300 bytes: header, trailer, the 4096 boundary and a seeded sample), appended tails (1 byte, 4 bytes, a copy of itself), zero-fill, seeded garbage, every uvarint length field replaced by 2^31/2^40/2^63/2^64-1; the damaged file is the newest snapshot of an image that also holds the older intact ones; the image is opened in a child process (RLIMIT_AS) through the mmap and the non-mmap loader: no death, no panic, allocation <= 64 x directory size + 16 MiB, content = the older snapshot's state. evaluations = simulated runs; crash_images_probed = damaged images opened. Ids up to 2^64-1 and coverage-guided fuzzing of the decoder are input generation, outside this technique",
			assume:   append([]string{"CRC-32 detects every single-bit flip and every burst <= 32 bits; a truncation is accepted with probability 2^-32 per length (would be reported)"}, commonAssume...),
			probes:   []string{"snapshot-over-4096-bytes", "snapshot-over-4096-bytes-with-many-deleted-bitmaps", "damaged-snapshot-with-deleted-bitmap"}}
	case "C14":
		return &checkDef{property: "C14", level: "fault_enumeration", timeout: 1200 * time.Second,
			budget: map[string]tierCfg{"quick": {48, 70}, "thorough": {4000, 1800}},
			rule:   "base runs are sampled by seed (1-2 clients, safe mode or unsafe with persisted callbacks, held readers); because a run is a pure function of its tape, the same tape is re-run with a fault placed on operation i of the recorded directory trace: every operation x every placement {directory error before any byte, item-writer failure after a partial write, os write ENOSPC after 3 bytes, fsync EIO after the full write; thorough also open/close/truncate errors and failure at byte 0 / at the end} (quick tier: a seeded subset of <= 160 placements per base run), plus sticky spans (2-7 consecutive operations fail) and seeded pairs. Oracle per faulted run: no panic, no hang (deterministic verdict), a Batch error only when a fault fired, AsyncError fired when a persister/merger step failed, monitor and held readers equal the abstract index of applied batches (a batch whose call returned the persist error is applied), the run finishes within 4x the fault-free window count + 3000 once faults stop, the reopened index equals the abstract index at quiescence, and for every 5th faulted run all crash images (during and after the fault) pass the C03 oracle. evaluations = base runs; fault_runs = faulted re-executions",
			assume: commonAssume,
			probes: []string{"batch-returned-persist-error", "open-failed-under-fault"}}
	case "C13":
		return &checkDef{property: "C13", level: "fault_enumeration", timeout: 600 * time.Second, special: true,
			budget: map[string]tierCfg{"quick": {1, 300}, "thorough": {1, 600}},
			rule:   "exhaustive enumeration, against the real FileSystemDirectory over the hooked os package, of: item kind {segment, snapshot} x item size {0,1,4095,4096,4097,3 buffers+5} x buffered/unbuffered item writer x pre-existing file {absent, shorter, equal, longer} x item-writer outcome {ok, error after k bytes, cancelled before, cancelled after k bytes} x os fault {none, open EACCES/EMFILE, truncate EIO, write ENOSPC/EIO after k bytes, fsync EIO, close EIO}, k over the boundary set {0,1,size/2,size-1,size,4095,4096,4097}; plus: the item's file held by another party with a shared or an exclusive lock (Persist must fail and leave that file byte for byte). Oracle: on nil the file holds exactly the bytes written, the os event log shows a successful Sync on it after the last write/truncate and before return, no injected non-write fault was swallowed; on error or cancellation nothing is left under the item's name (an untouched pre-existing file is accepted only when the failure preceded any change). non-trivial = a fault, a failing/cancelled item writer or a pre-existing file is involved",
			assume: []string{"os.File.Sync is the flush to stable storage (observed at the os seam through a go build -overlay hook)", "single caller: Persist of one item is not raced with another Persist of the same name"},
		}
	case "C12big":
		d := defFor("C12")
		return d
	case "C04mem", "C04bulk":
		return defFor("C04")
	case "C04":
		return &checkDef{property: "C04", level: "exploration",
			variants: []string{"C04", "C04", "C04bulk", "C04mem"},
			budget: map[string]tierCfg{"quick": {2500, 75}, "thorough": {100000, 1500}},
			rule:   "one simulated run per seed (three in four on the file-system directory, one in four on the in-memory directory; in one run of four every fifth batch is a bulk batch of 32-40 documents under an id space of its own, each replacing all documents of the one before): 1-3 client actors hold up to three Readers of different ages open while batches, in-memory merges, file merges, persist swaps, clean-ups (unlinks) and writer Close are scheduled between their reads; the first full read of a reader (count, match-all with stored fields, lookup by id, sorted top-N over document values, aggregations, dictionary scan, phrase/boolean/conjunction/disjunction/range/prefix queries, scored nested booleans, and 6-11 queries generated per run from all public query types, with scores) is its baseline, checked against the abstract index at acquisition; right after acquisition, while the reader is still the writer's current root, the same reads are repeated twice in rotated order and must agree (answers must not depend on search history); every later read, again in another order, must be identical; in one run of four the writer is closed at an arbitrary moment (while merges and persists are in progress) instead of at quiescence, and in half of the runs the held readers stay open over Writer.Close and are read once more after it returned; a third of the runs disable the query optimisations. distinct = distinct release sequences; non-trivial = a background step was interleaved between two client operations",
			assume: commonAssume,
			probes: []string{"reader-held-across-unlink-of-other-files", "remove-refused-while-reader-open", "reader-held-across-merge", "reader-reread", "file-merge", "in-memory-merge", "held-reader-read-after-writer-close", "close-while-background-work-in-progress", "bulk-rewrite-of-whole-segment"}}
	case "C05":
		return &checkDef{property: "C05", level: "exploration",
			budget: map[string]tierCfg{"quick": {4000, 75}, "thorough": {200000, 1500}},
			rule:   "one simulated run per seed: 2-8 client actors over 3-6 shared ids issue 2-5 operations each (Batch/Insert/Update/Delete, Reader()+full read); the window between a batch computing its obsoletes and its introduction is opened by the DocsMatchingTerms gate; invoke/return are stamped with scheduler windows; porcupine decides the history against the abstract index (Illegal = violation, Unknown counted, never reported) and, independently, every monitor observation must be an atomic application of in-flight batches. distinct = distinct release sequences; non-trivial = background step interleaved between client operations",
			assume: commonAssume,
			probes: []string{"introducer-recompute-obsoletes", "multi-batch-window"}}
	case "C06":
		return &checkDef{property: "C06", level: "exploration",
			budget: map[string]tierCfg{"quick": {2500, 75}, "thorough": {100000, 1500}},
			rule:   "one simulated run per seed in a merge-heavy configuration (tiers 2-3, floor 1-4, tasks of 2-10 segments, in-memory merge threshold 2-4); while a merge is between its Merge seam and its introduction, or an in-memory segment between being written out and its persist swap, the generator aims deletes/updates (including delete-all) at the documents of those segments; after every window the monitor reader must equal the abstract index, at quiescence the reopened on-disk index too. distinct = distinct release sequences; non-trivial = background step interleaved between client operations",
			assume: commonAssume,
			probes: []string{"delete-into-merge-window", "persist-window-opened", "merge-skipped-all-deleted", "in-memory-merge", "file-merge", "merge-3plus-inputs"}}
	}
	return nil
}

// selftest: every seed is executed at GOMAXPROCS 1, 4 and 16, twice each, in
// separate processes; the full event logs (including hashes of every
// persisted file) must be identical. Any divergence is harness trouble.
var selftestProfiles = []string{"selftest", "C01", "C11", "C06", "C05", "C04", "C19", "C02", "C14", "C03", "C08"}

func selftest(bin string, baseSeed uint64, cfg tierCfg, nw int) int {
	start := time.Now()
	type key struct {
		seed uint64
	}
	var mu sync.Mutex
	hashes := map[uint64]map[string]string{}
	var bad []string
	var wg sync.WaitGroup
	procs := []string{"1", "4", "16"}
	per := cfg.runs
	total := 0
	for _, gmp := range procs {
		for rep := 0; rep < 2; rep++ {
			for shard := 0; shard < 6; shard++ {
				wg.Add(1)
				gmp, rep, shard := gmp, rep, shard
				go func() {
					defer wg.Done()
					mu.Lock()
					extraEnv = nil
					mu.Unlock()
					w := startWorkerEnv(bin, []string{"GOMAXPROCS=" + gmp})
					defer func() { w.stop() }()
					for i := shard; i < per; i += 6 {
						seed := seedFor(baseSeed, i)
						// the profiles of the checks take turns (a divergence that
						// only a reopened writer produced was invisible to a
						// self-test that ran one small profile)
						prof := selftestProfiles[i%len(selftestProfiles)]
						r := w.do(&Job{ID: i, Check: prof, Tier: "quick", Seed: seed, Trace: true, HashOnly: true}, 120*time.Second)
						if w.dead {
							w = startWorkerEnv(bin, []string{"GOMAXPROCS=" + gmp})
						}
						mu.Lock()
						total++
						if r.died || r.Harness != "" {
							bad = append(bad, fmt.Sprintf("seed %d GOMAXPROCS=%s: worker trouble: %s %s", seed, gmp, r.Harness, lastLines(r.stderr, 10)))
						} else {
							if hashes[seed] == nil {
								hashes[seed] = map[string]string{}
							}
							h := r.LogHash
							if r.Violation != nil {
								h += " VIOLATION " + r.Violation.Oracle
							}
							hashes[seed][fmt.Sprintf("%s/%d", gmp, rep)] = h
						}
						mu.Unlock()
					}
				}()
			}
		}
	}
	wg.Wait()
	div := 0
	for seed, m := range hashes {
		first := ""
		for _, h := range m {
			if first == "" {
				first = h
			} else if h != first {
				div++
				bad = append(bad, fmt.Sprintf("seed %d diverged: %v", seed, m))
				break
			}
		}
	}
	fmt.Printf("selftest: %d seeds (profiles of 11 checks in turn) x %d executions (GOMAXPROCS 1/4/16, 2 repetitions, 36 processes): %d divergences, %.1fs\n",
		len(hashes), total, div, time.Since(start).Seconds())
	if len(bad) > 0 {
		for _, b := range bad {
			fmt.Fprintln(os.Stderr, b)
		}
		return 2
	}
	return 0
}

func startWorkerEnv(bin string, e []string) *worker {
	w := startWorkerWith(bin, e)
	return w
}
