package sim

import (
	"errors"
	"fmt"
	"io"
	"os"
	"path/filepath"
	"sort"
	"strings"
	"sync"
	"sync/atomic"

	"github.com/blugelabs/bluge/index"
	segment "github.com/blugelabs/bluge_segment_api"
)

// DirOp is one recorded directory operation. The sequence of DirOps of a run
// is totally ordered (every operation has a pre-gate, one actor is released
// per window), except for the removals of one clean-up, which form an
// unordered group (bluge ranges over a Go map there).
type DirOp struct {
	Idx    int    `json:"idx"`
	Win    int    `json:"win"`
	Actor  string `json:"actor"`
	Op     string `json:"op"` // setup lock unlock list load persist remove stats
	Kind   string `json:"kind,omitempty"`
	ID     uint64 `json:"id,omitempty"`
	Err    string `json:"err,omitempty"`
	Inject string `json:"inject,omitempty"`
	Group  int    `json:"group,omitempty"`
	Size   int    `json:"size"`
	// persist only
	Data        []byte                   `json:"-"` // file content after the operation (nil: absent)
	Prev        []byte                   `json:"-"` // file content before the operation
	PrevExisted bool                     `json:"prev_existed,omitempty"`
	Written     int                      `json:"written,omitempty"` // bytes the item writer produced
	Writes      int                      `json:"writes,omitempty"`
	SnapInfo    []index.VerifSegmentInfo `json:"-"` // snapshot persists: what was handed to the encoder
	// persist / remove issued through a directory object that had already
	// released its lock
	AfterUnlock bool `json:"after_unlock,omitempty"`
}

func fileName(kind string, id uint64) string { return fmt.Sprintf("%012x", id) + kind }

// FaultDecider decides, for an operation about to run, whether to inject.
// It runs in the actor's goroutine and therefore must not draw from the tape;
// it only consults a plan made by the scheduler.
type FaultPlan struct {
	mu sync.Mutex
	// by operation index (position in the trace): fault kind
	AtOp map[int]string
	// NoOpenLoad: never fault a load issued inside OpenWriter/OpenReader
	NoOpenLoad bool
	// sticky faults: active while opIdx in [From,To)
	Fired map[string]int
}

var ErrInjected = errors.New("verif: injected I/O error")

func (p *FaultPlan) firedTotal() int {
	if p == nil {
		return 0
	}
	p.mu.Lock()
	defer p.mu.Unlock()
	n := 0
	for _, c := range p.Fired {
		n += c
	}
	return n
}

type DirTrace struct {
	sim     *Sim
	mu      sync.Mutex
	Ops     []*DirOp
	path    string // "" for in-memory directories
	groupOf map[string]int
	nextGrp int
	plan    *FaultPlan
	// handles
	loads       int
	loadCloses  int
	doubleClose int
	openLoads   map[int]string
	// mid-persist gate: park the writer once after this many bytes (0 = off)
	MidGateAfter int
	ReadBack     bool
	violations   []string
	OS           *OSHook
	// OnPersistSegment is told the ids held by an in-memory segment that is
	// about to be written out (delete-into-persist bias)
	OnPersistSegment func(ids []string)
}

func NewDirTrace(s *Sim, path string) *DirTrace {
	return &DirTrace{sim: s, path: path, groupOf: map[string]int{}, openLoads: map[int]string{}, ReadBack: path != ""}
}

func (t *DirTrace) readFile(kind string, id uint64) ([]byte, bool) {
	if t.path == "" {
		return nil, false
	}
	b, err := os.ReadFile(filepath.Join(t.path, fileName(kind, id)))
	if err != nil {
		return nil, false
	}
	if b == nil {
		b = []byte{}
	}
	return b, true
}

func (t *DirTrace) nextIdx() int {
	t.mu.Lock()
	defer t.mu.Unlock()
	return len(t.Ops)
}

func (t *DirTrace) record(op *DirOp) {
	op.Actor = t.sim.ActorName()
	op.Win = t.sim.Win
	t.mu.Lock()
	op.Idx = len(t.Ops)
	t.Ops = append(t.Ops, op)
	t.mu.Unlock()
	d := op.Op + " " + op.Kind
	if op.Op == "persist" || op.Op == "load" {
		d += fmt.Sprintf(" %x", op.ID)
	}
	if op.Err != "" {
		d += " ERR"
	}
	if op.Op == "persist" && op.Data != nil {
		d += fmt.Sprintf(" size=%d h=%x", len(op.Data), hashStr(string(op.Data)))
	}
	if op.Op != "remove" { // removals are logged as a sorted group by the policy wrapper
		t.sim.Rec("dir", d, op)
	}
}

func (t *DirTrace) injectFor(opName, kind string) string {
	if t.plan == nil {
		return ""
	}
	actor := t.sim.ActorName()
	if actor == "" {
		// the harness's own probes (monitor, reopen after Close) are not part
		// of the system under test: never faulted
		return ""
	}
	if t.plan.NoOpenLoad && opName == "load" && strings.HasPrefix(actor, "client") {
		// loads by a client happen only inside OpenWriter/OpenReader; a fault
		// there is the listed known finding and is only placed alone (plans
		// with several faults must not run into it after they diverged from
		// the recorded run)
		return ""
	}
	t.plan.mu.Lock()
	defer t.plan.mu.Unlock()
	idx := t.nextIdx()
	if f, ok := t.plan.AtOp[idx]; ok {
		if t.plan.Fired == nil {
			t.plan.Fired = map[string]int{}
		}
		t.plan.Fired[f]++
		return f
	}
	return ""
}

// RecDir wraps a real index.Directory.
type RecDir struct {
	t     *DirTrace
	inner index.Directory
	ro    bool
	// lockState: 0 never locked, 1 holds the lock, 2 released it. A directory
	// object that mutates the directory in state 2 belongs to a writer that
	// gave the lock away while its loops were still at work.
	lockState atomic.Int32
}

func (t *DirTrace) Wrap(inner index.Directory) *RecDir { return &RecDir{t: t, inner: inner} }

func errStr(err error) string {
	if err == nil {
		return ""
	}
	return err.Error()
}

func (d *RecDir) Setup(readOnly bool) error {
	d.t.sim.Gate("dir.setup", "")
	op := &DirOp{Op: "setup"}
	if f := d.t.injectFor("setup", ""); f == "dir-error" {
		op.Inject, op.Err = f, ErrInjected.Error()
		d.t.record(op)
		return ErrInjected
	}
	err := d.inner.Setup(readOnly)
	op.Err = errStr(err)
	d.t.record(op)
	return err
}

func (d *RecDir) List(kind string) ([]uint64, error) {
	d.t.sim.Gate("dir.list", kind)
	op := &DirOp{Op: "list", Kind: kind}
	if f := d.t.injectFor("list", kind); f == "dir-error" {
		op.Inject, op.Err = f, ErrInjected.Error()
		d.t.record(op)
		return nil, ErrInjected
	}
	rv, err := d.inner.List(kind)
	op.Err = errStr(err)
	op.Size = len(rv)
	d.t.record(op)
	return rv, err
}

type recCloser struct {
	t      *DirTrace
	inner  io.Closer
	id     int
	closed bool
	mu     sync.Mutex
	gate   bool
}

func (c *recCloser) Close() error {
	if c.gate {
		// a snapshot file is closed by loadSnapshot outside any lock: parking
		// here holds its shared lock across other actors' steps, so that a
		// clean-up meets a snapshot file it cannot remove
		c.t.sim.Gate("dir.close", "snapshot")
	}
	c.mu.Lock()
	dbl := c.closed
	c.closed = true
	c.mu.Unlock()
	c.t.mu.Lock()
	if dbl {
		c.t.doubleClose++
		c.t.violations = append(c.t.violations, fmt.Sprintf("handle %d (%s) closed twice", c.id, c.t.openLoads[c.id]))
	} else {
		c.t.loadCloses++
		delete(c.t.openLoads, c.id)
	}
	c.t.mu.Unlock()
	if dbl {
		return nil
	}
	return c.inner.Close()
}

func (d *RecDir) Load(kind string, id uint64) (*segment.Data, io.Closer, error) {
	d.t.sim.Gate("dir.load", fileName(kind, id))
	op := &DirOp{Op: "load", Kind: kind, ID: id}
	if f := d.t.injectFor("load", kind); f == "dir-error" {
		op.Inject, op.Err = f, ErrInjected.Error()
		d.t.record(op)
		return nil, nil, ErrInjected
	}
	data, closer, err := d.inner.Load(kind, id)
	op.Err = errStr(err)
	if data != nil {
		op.Size = data.Len()
	}
	d.t.record(op)
	if err != nil || closer == nil {
		return data, closer, err
	}
	d.t.mu.Lock()
	d.t.loads++
	hid := d.t.loads
	d.t.openLoads[hid] = fileName(kind, id)
	d.t.mu.Unlock()
	return data, &recCloser{t: d.t, inner: closer, id: hid, gate: kind == index.ItemKindSnapshot}, nil
}

type recWriter struct {
	w        io.Writer
	t        *DirTrace
	op       *DirOp
	failAt   int // item-writer failure after this many bytes (-1: none)
	gateAt   int
	gated    bool
	closeCh  chan struct{}
	cancelAt int
}

func (w *recWriter) Write(p []byte) (int, error) {
	if w.failAt >= 0 && w.op.Written+len(p) > w.failAt {
		k := w.failAt - w.op.Written
		if k < 0 {
			k = 0
		}
		n, _ := w.w.Write(p[:k])
		w.op.Written += n
		w.op.Writes++
		return n, ErrInjected
	}
	n, err := w.w.Write(p)
	w.op.Written += n
	w.op.Writes++
	if w.gateAt > 0 && !w.gated && w.op.Written >= w.gateAt {
		w.gated = true
		w.t.sim.Gate("dir.midpersist", "")
	}
	return n, err
}

type recWriterTo struct {
	inner  index.WriterTo
	t      *DirTrace
	op     *DirOp
	failAt int
}

func (r *recWriterTo) WriteTo(w io.Writer, closeCh chan struct{}) (int64, error) {
	rw := &recWriter{w: w, t: r.t, op: r.op, failAt: r.failAt, gateAt: r.t.MidGateAfter}
	n, err := r.inner.WriteTo(rw, closeCh)
	if err == nil && r.failAt >= 0 && r.op.Written <= r.failAt {
		// the item was shorter than the failure point: fail at the end
		return n, ErrInjected
	}
	return n, err
}

func (d *RecDir) Persist(kind string, id uint64, w index.WriterTo, closeCh chan struct{}) error {
	d.t.sim.Gate("dir.persist", fileName(kind, id))
	op := &DirOp{Op: "persist", Kind: kind, ID: id, AfterUnlock: d.lockState.Load() == 2}
	if d.t.ReadBack {
		op.Prev, op.PrevExisted = d.t.readFile(kind, id)
	}
	failAt := -1
	switch f := d.t.injectFor("persist", kind); f {
	case "":
	case "dir-error":
		op.Inject, op.Err = f, ErrInjected.Error()
		op.Data = op.Prev
		d.t.record(op)
		return ErrInjected
	case "item-fail-0":
		op.Inject, failAt = f, 0
	case "item-fail-mid":
		op.Inject, failAt = f, 7
	case "item-fail-end":
		op.Inject, failAt = f, 1<<30
	default:
		op.Inject = f // os-level faults are armed on the os hook for the duration of this operation
		d.t.armOS(f, fileName(kind, id))
	}
	if snap, ok := w.(*index.Snapshot); ok && kind == index.ItemKindSnapshot {
		op.SnapInfo = snap.VerifSegmentInfos()
	}
	if g, ok := w.(*gseg); ok && kind == index.ItemKindSegment && d.t.OnPersistSegment != nil {
		// an in-memory segment is being written out: between now and the
		// persist swap, deletes that land on it must survive the swap
		idset := map[string]bool{}
		for num := uint64(0); num < g.Segment.Count(); num++ {
			_ = g.Segment.VisitStoredFields(num, func(f string, v []byte) bool {
				if f == "_id" {
					idset[string(v)] = true
					return false
				}
				return true
			})
		}
		var ids []string
		for id := range idset {
			ids = append(ids, id)
		}
		sort.Strings(ids)
		d.t.OnPersistSegment(ids)
	}
	err := d.inner.Persist(kind, id, &recWriterTo{inner: w, t: d.t, op: op, failAt: failAt}, closeCh)
	d.t.disarmOS()
	op.Err = errStr(err)
	if d.t.ReadBack {
		op.Data, _ = d.t.readFile(kind, id)
	}
	op.Size = len(op.Data)
	d.t.record(op)
	return err
}

func (d *RecDir) Remove(kind string, id uint64) error {
	op := &DirOp{Op: "remove", Kind: kind, ID: id, AfterUnlock: d.lockState.Load() == 2}
	actor := d.t.sim.ActorName()
	d.t.mu.Lock()
	op.Group = d.t.groupOf[actor]
	d.t.mu.Unlock()
	if f := d.t.injectFor("remove", kind); f == "dir-error" {
		op.Inject, op.Err = f, ErrInjected.Error()
		d.t.record(op)
		return ErrInjected
	}
	err := d.inner.Remove(kind, id)
	op.Err = errStr(err)
	d.t.record(op)
	return err
}

func (d *RecDir) Stats() (uint64, uint64) {
	if d.t.sim.ActorName() == "" {
		return d.inner.Stats()
	}
	d.t.sim.Gate("dir.stats", "")
	n, b := d.inner.Stats()
	d.t.record(&DirOp{Op: "stats", Size: int(n)})
	return n, b
}

func (d *RecDir) Sync() error {
	d.t.sim.Gate("dir.sync", "")
	err := d.inner.Sync()
	d.t.record(&DirOp{Op: "sync", Err: errStr(err)})
	return err
}

func (d *RecDir) Lock() error {
	d.t.sim.Gate("dir.lock", "")
	op := &DirOp{Op: "lock"}
	if f := d.t.injectFor("lock", ""); f == "dir-error" {
		op.Inject, op.Err = f, ErrInjected.Error()
		d.t.record(op)
		return ErrInjected
	}
	err := d.inner.Lock()
	if err == nil {
		d.lockState.Store(1)
	}
	op.Err = errStr(err)
	d.t.record(op)
	return err
}

func (d *RecDir) Unlock() error {
	d.t.sim.Gate("dir.unlock", "")
	err := d.inner.Unlock()
	if d.lockState.Load() == 1 {
		d.lockState.Store(2)
	}
	d.t.record(&DirOp{Op: "unlock", Err: errStr(err)})
	return err
}

// gatedPolicy delegates to the real deletion policy; all removals of one
// Cleanup call form one unordered group.
type gatedPolicy struct {
	inner index.DeletionPolicy
	t     *DirTrace
}

func (p *gatedPolicy) Commit(s *index.Snapshot) {
	p.t.sim.Gate("policy.commit", "")
	p.t.sim.Rec("commit", fmt.Sprintf("epoch=%d", s.VerifEpoch()), nil)
	p.inner.Commit(s)
}

func (p *gatedPolicy) Cleanup(dir index.Directory) error {
	p.t.sim.Gate("policy.cleanup", "")
	actor := p.t.sim.ActorName()
	p.t.mu.Lock()
	p.t.nextGrp++
	grp := p.t.nextGrp
	p.t.groupOf[actor] = grp
	start := len(p.t.Ops)
	p.t.mu.Unlock()
	err := p.inner.Cleanup(dir)
	p.t.mu.Lock()
	p.t.groupOf[actor] = 0
	var names []string
	for _, op := range p.t.Ops[start:] {
		if op.Op == "remove" && op.Group == grp {
			n := fileName(op.Kind, op.ID)
			if op.Err != "" {
				n += "!"
			}
			names = append(names, n)
		}
	}
	p.t.mu.Unlock()
	sort.Strings(names)
	p.t.sim.Rec("cleanup", fmt.Sprintf("%v", names), nil)
	return err
}

// os-level faults ("os:<op>:<errno>[@k]") for the duration of one Persist.
func (t *DirTrace) armOS(f, name string) {
	if t.OS == nil || len(f) < 4 || f[:3] != "os:" {
		return
	}
	spec := f[3:]
	op, en, after := spec, "EIO", 0
	for i := 0; i < len(spec); i++ {
		if spec[i] == ':' {
			op, en = spec[:i], spec[i+1:]
			break
		}
	}
	for i := 0; i < len(en); i++ {
		if en[i] == '@' {
			fmt.Sscanf(en[i+1:], "%d", &after)
			en = en[:i]
			break
		}
	}
	t.OS.Arm(&OSFault{Op: op, Suffix: name, After: after, Errno: errnoOf(en)})
}

func (t *DirTrace) disarmOS() {
	if t.OS != nil {
		t.OS.Disarm()
	}
}
