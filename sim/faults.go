package sim

import (
	"fmt"
	"os"
	"sort"
	"strings"
)

// ---- C14: I/O failures are reported, contained and recovered from ----------

// faultKindsFor lists the placements tried on one operation of a recorded run.
func faultKindsFor(op *DirOp, thorough bool) []string {
	switch op.Op {
	case "persist":
		ks := []string{"dir-error", "item-fail-mid", "os:sync:EIO", "os:write:ENOSPC@3"}
		if thorough {
			ks = append(ks, "item-fail-0", "item-fail-end", "os:close:EIO", "os:open:EMFILE", "os:write:EIO@0", "os:truncate:EIO")
		}
		return ks
	case "load", "remove", "list", "lock", "setup":
		return []string{"dir-error"}
	}
	return nil
}

type faultCase struct {
	At   map[int]string `json:"at"`
	Desc string         `json:"desc"`
}

// faultPostRun re-runs the tape of a finished fault-free run with one (or
// two, or a span of) injected faults: because a run is a pure function of its
// tape, the execution is identical up to the faulted operation.
func faultPostRun(r *Run, res *Result) {
	if r.k.Dir != "fs" || r.trace == nil {
		return
	}
	if res.Extra == nil {
		res.Extra = map[string]any{}
	}
	thorough := r.p.Tier == "thorough"
	rng := NewRNG(hashStr(fmt.Sprint("c14", res.Seed)))
	ops := r.trace.Ops
	var cases []faultCase
	if r.faultReplay != nil {
		cases = []faultCase{*r.faultReplay}
	} else {
		for _, op := range ops {
			if op.Actor == "" {
				continue // issued by the harness itself (reopen check), not by the writer
			}
			for _, k := range faultKindsFor(op, thorough) {
				cases = append(cases, faultCase{At: map[int]string{op.Idx: k}, Desc: fmt.Sprintf("%s on op %d (%s %s by %s)", k, op.Idx, op.Op, fileName(op.Kind, op.ID), op.Actor)})
			}
		}
		// a load issued by a client actor happens only inside OpenWriter /
		// OpenReader; a fault there is the listed known finding (silent
		// fall-back to an older snapshot) and is only ever placed alone
		openLoad := func(i int) bool {
			return i >= 0 && i < len(ops) && ops[i].Op == "load" && strings.HasPrefix(ops[i].Actor, "client")
		}
		// sticky: a span of consecutive operations fails (disk full for a while)
		for c := 0; c < 4 && len(ops) > 8; c++ {
			from := int(rng.Next() % uint64(len(ops)-4))
			span := 2 + int(rng.Next()%6)
			at := map[int]string{}
			skip := false
			for i := from; i < from+span; i++ {
				at[i] = "dir-error"
				if openLoad(i) {
					skip = true
				}
			}
			if skip {
				continue
			}
			cases = append(cases, faultCase{At: at, Desc: fmt.Sprintf("sticky dir-error on ops %d..%d", from, from+span-1)})
		}
		// pairs
		np := 6
		if thorough {
			np = 60
		}
		for c := 0; c < np && len(ops) > 4; c++ {
			i := int(rng.Next() % uint64(len(ops)))
			j := int(rng.Next() % uint64(len(ops)))
			if i == j || openLoad(i) || openLoad(j) {
				continue
			}
			ki, kj := faultKindsFor(ops[i], true), faultKindsFor(ops[j], true)
			if len(ki) == 0 || len(kj) == 0 {
				continue
			}
			at := map[int]string{i: ki[int(rng.Next()%uint64(len(ki)))], j: kj[int(rng.Next()%uint64(len(kj)))]}
			cases = append(cases, faultCase{At: at, Desc: fmt.Sprintf("pair %v", at)})
		}
		// quick tier: a seeded subset of the single placements on long traces
		max := 100
		if thorough {
			max = 600
		}
		if len(cases) > max {
			for i := len(cases) - 1; i > 0; i-- {
				j := int(rng.Next() % uint64(i+1))
				cases[i], cases[j] = cases[j], cases[i]
			}
			cases = cases[:max]
		}
	}
	baseTape := append([]uint32(nil), r.t.Used()...)
	faultRuns, imgRuns := 0.0, 0.0
	for ci, fc := range cases {
		if overTime(res) {
			break
		}
		tape := NewReplayTape(baseTape)
		tape.rng = NewRNG(mix64(res.Seed, uint64(ci)+1)) // draws beyond the recorded tape
		tape.trace = r.t.trace
		pp := *r.p
		pp.Faults = true
		pp.PostRun = nil
		pp.MaxWindows = r.stats.Windows*4 + 3000
		child := newRun(&pp, tape, scratch())
		child.plan = &FaultPlan{AtOp: fc.At, NoOpenLoad: len(fc.At) > 1}
		func() {
			defer func() {
				if pv := recover(); pv != nil {
					res.Fatal = true
					if child.viol == nil {
						child.viol = &Violation{Oracle: "fault-panic", Msg: fmt.Sprintf("panic escaped the faulted run: %v", pv)}
					}
				}
			}()
			runBubble(curT, child)
		}()
		faultRuns++
		res.Stats.Windows += child.stats.Windows
		res.Stats.DirOps += child.stats.DirOps
		fired := 0
		if child.plan.Fired != nil {
			for k, n := range child.plan.Fired {
				kk := k
				if i := strings.IndexByte(kk, '@'); i >= 0 {
					kk = kk[:i]
				}
				res.Stats.Faults[kk] += n
				fired += n
			}
		}
		for k, v := range child.stats.Probes {
			res.Stats.Probes[k] += v
		}
		v := child.viol
		if v == nil && child.budgetStop {
			v = &Violation{Oracle: "fault-liveness", Msg: fmt.Sprintf("after the injected fault(s) cleared the run did not finish within %d windows (the fault-free run took %d)", pp.MaxWindows, r.stats.Windows), Win: child.s.Win}
		}
		if v == nil && fired > 0 {
			if msg := child.faultSurfaced(); msg != "" {
				v = &Violation{Oracle: "fault-surfaced", Msg: msg}
			}
		}
		if v == nil && !child.budgetStop && (ci%5 == 0 || r.faultReplay != nil || thorough && ci%3 == 0) {
			// crash atomicity and durability at every instant during and after the fault
			cres := &Result{Seed: res.Seed, Check: res.Check, Stats: RunStats{Probes: map[string]int{}, Faults: map[string]int{}}}
			pp.Torn = ci%10 == 0
			crashPostRun(child, cres)
			imgRuns++
			res.Stats.Images += cres.Stats.Images
			if cres.Violation != nil {
				v = cres.Violation
				if d, ok := cres.Extra["image_dir"]; ok {
					res.Extra["image_dir"] = d
				}
			}
		}
		if v != nil && len(fc.At) == 1 && r.faultReplay == nil {
			// a single fault on a load issued inside OpenWriter/OpenReader:
			// reported as an observation (the driver matches it against the
			// known findings; unmatched it is a violation) so that the other
			// placements of this base run are still tried
			single := -1
			for i := range fc.At {
				single = i
			}
			if single >= 0 && single < len(ops) && ops[single].Op == "load" && strings.HasPrefix(ops[single].Actor, "client") {
				msg := fmt.Sprintf("[fault: %s; fired %d] %s", fc.Desc, fired, v.Msg)
				dup := false
				for _, o := range res.Observations {
					if o.Oracle == v.Oracle {
						dup = true
					}
				}
				if !dup {
					res.Observations = append(res.Observations, Violation{Oracle: v.Oracle, Msg: msg, Win: v.Win})
				}
				res.Stats.Probes["open-load-fault-fell-back"]++
				continue
			}
		}
		if v != nil {
			vv := *v
			vv.Msg = fmt.Sprintf("[fault: %s; fired %d] %s", fc.Desc, fired, vv.Msg)
			res.Violation = &vv
			res.Extra["fault_case"] = fc
			res.Extra["fault_ops"] = child.opsLog
			var tl []string
			tailN := 60
			if v := os.Getenv("BSIM_LOGTAIL"); v != "" {
				fmt.Sscanf(v, "%d", &tailN)
			}
			for _, e := range tailEvents(child.s, tailN) {
				tl = append(tl, e.String())
			}
			res.Extra["fault_log_tail"] = tl
			break
		}
	}
	res.Extra["fault_runs"] = faultRuns
	res.Extra["fault_runs_with_crash_enumeration"] = imgRuns
}

// faultSurfaced: a fault in the persister's or merger's work must have been
// reported through the asynchronous error callback (and, for faults while
// opening, through the error of OpenWriter).
func (r *Run) faultSurfaced() string {
	var bg []string
	for _, op := range r.trace.Ops {
		if op.Inject == "" {
			continue
		}
		closing := false
		for _, sp := range r.closeSpans {
			if op.Win >= sp[0] && op.Win <= sp[1] {
				closing = true
			}
		}
		if closing {
			continue // the writer was being closed: the work is abandoned, nothing is owed
		}
		if (op.Actor == "persister" || op.Actor == "merger") && (op.Op == "persist" || op.Op == "load") && op.Err != "" {
			bg = append(bg, fmt.Sprintf("%s on %s %s by %s", op.Inject, op.Op, fileName(op.Kind, op.ID), op.Actor))
		}
	}
	sort.Strings(bg)
	r.mu.Lock()
	n := r.asyncErrs
	r.mu.Unlock()
	if len(bg) > 0 && n == 0 {
		return fmt.Sprintf("injected failure(s) %v kept the persister/merger from completing its work, but the asynchronous error callback never fired", bg)
	}
	return ""
}
