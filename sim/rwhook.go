package sim

import (
	"fmt"
	"os"
	"runtime"
	"strings"
	"sync"
	"sync/atomic"
)

// Recursive read locking. sync.RWMutex prohibits it: if another goroutine
// calls Lock between the two RLocks of one goroutine, the second RLock waits
// for the writer and the writer waits for the first RLock - for ever. The
// window is a few instructions wide, so no schedule of gates ever lands a
// writer in it; instead the lock discipline itself is checked while the runs
// proceed: per goroutine, the RWMutexes that code of bluge holds for reading.

type rwHeld struct {
	m map[*sync.RWMutex][]string // lock -> acquiring functions (innermost last)
}

var (
	rwHolders   sync.Map // goroutine id -> *rwHeld (touched by that goroutine only)
	rwCallers   sync.Map // pc -> function name ("" = not bluge)
	rwViolation atomic.Pointer[string]
)

var rwNop = os.Getenv("BSIM_RWNOP") != ""

func rwHook(rw *sync.RWMutex, op int) {
	if rwNop {
		return
	}
	// not in the concurrent-window runs: the bookkeeping below goes through
	// shared maps, whose internal synchronisation would give the race
	// detector happens-before edges between searches that have none (it hid
	// the race of seeded change C15a); the lock discipline is checked in the
	// one-release-per-window runs, which execute the same code paths
	if s := curSim.Load(); s == nil || s.quiet {
		return
	}
	var pcs [1]uintptr
	// 0 Callers, 1 rwHook, 2 sync.(*RWMutex).RLock / RUnlock, 3 the locking function
	if runtime.Callers(3, pcs[:]) == 0 {
		return
	}
	var fn string
	if v, ok := rwCallers.Load(pcs[0]); ok {
		fn = v.(string)
	} else {
		if f := runtime.FuncForPC(pcs[0] - 1); f != nil {
			if n := f.Name(); strings.HasPrefix(n, "github.com/blugelabs/bluge") {
				fn = n
			}
		}
		rwCallers.Store(pcs[0], fn)
	}
	if fn == "" {
		return
	}
	id := runtime.VerifGoid()
	v, ok := rwHolders.Load(id)
	if !ok {
		if op != 0 {
			return
		}
		v, _ = rwHolders.LoadOrStore(id, &rwHeld{m: map[*sync.RWMutex][]string{}})
	}
	h := v.(*rwHeld)
	if op == 0 {
		if held := h.m[rw]; len(held) > 0 && rwViolation.Load() == nil {
			msg := fmt.Sprintf("%s read-locks a sync.RWMutex that the same goroutine already holds for reading (taken in %s): recursive read locking deadlocks as soon as a writer asks for the lock in between", short(fn), short(held[len(held)-1]))
			rwViolation.CompareAndSwap(nil, &msg)
		}
		h.m[rw] = append(h.m[rw], fn)
		return
	}
	if held := h.m[rw]; len(held) > 0 {
		h.m[rw] = held[:len(held)-1]
		if len(h.m[rw]) == 0 {
			delete(h.m, rw)
		}
	}
}

func short(fn string) string { return strings.TrimPrefix(fn, "github.com/blugelabs/bluge/") }

func init() {
	if os.Getenv("BSIM_NORW") == "" {
		sync.VerifRWHook = rwHook
	}
}

// resetRWHook forgets the bookkeeping of earlier runs (goroutine ids are not reused within a process, but keep the map small).
func resetRWHook() {
	rwHolders.Range(func(k, _ any) bool { rwHolders.Delete(k); return true })
	rwViolation.Store(nil)
}
