package sim

import (
	"context"
	"fmt"
	"sort"
	"strings"

	"github.com/blugelabs/bluge"
	"github.com/blugelabs/bluge/search"
	"github.com/blugelabs/bluge/search/aggregations"
)

func uidsOf(r *bluge.Reader, req bluge.SearchRequest) (string, *search.Bucket, error) {
	it, err := r.Search(context.Background(), req)
	if err != nil {
		return "", nil, err
	}
	var us []string
	for {
		m, err := it.Next()
		if err != nil {
			return "", nil, err
		}
		if m == nil {
			break
		}
		uid := ""
		_ = m.VisitStoredFields(func(f string, v []byte) bool {
			if f == "uid" {
				uid = string(v)
				return false
			}
			return true
		})
		us = append(us, uid)
	}
	return strings.Join(us, ","), it.Aggregations(), nil
}

// ReadExt performs the wider set of reads the reader-isolation oracle repeats
// on a held reader: document values through a sorted top-N search and a terms
// aggregation with a nested metric, a dictionary scan, phrase / boolean /
// conjunction / disjunction / numeric-range queries (the optimised bitmap
// paths included). The result maps a read's name to a canonical rendering.
func ReadExt(r *bluge.Reader) map[string]string {
	rv := map[string]string{}
	put := func(name, val string, err error) {
		if err != nil {
			rv[name] = "ERROR " + err.Error()
		} else {
			rv[name] = val
		}
	}
	// sorted top-N (document values of num, tag, uid)
	top := bluge.NewTopNSearch(1000, bluge.NewMatchAllQuery()).SortBy([]string{"-num", "tag", "uid"})
	top.AddAggregation("tags", func() search.Aggregation {
		a := aggregations.NewTermsAggregation(search.Field("tag"), 10)
		a.AddAggregation("sum", aggregations.Sum(search.Field("num")))
		return a
	}())
	top.AddAggregation("min", aggregations.Min(search.Field("num")))
	top.AddAggregation("max", aggregations.Max(search.Field("num")))
	s, b, err := uidsOf(r, top)
	put("topn-sorted", s, err)
	if err == nil && b != nil {
		var parts []string
		parts = append(parts, fmt.Sprintf("count=%d", b.Count()))
		if tc, ok := b.Aggregations()["tags"].(search.BucketCalculator); ok {
			var bs []string
			for _, tb := range tc.Buckets() {
				sum := 0.0
				if m, ok := tb.Aggregations()["sum"].(search.MetricCalculator); ok {
					sum = m.Value()
				}
				bs = append(bs, fmt.Sprintf("%s:%d:%g", tb.Name(), tb.Count(), sum))
			}
			sort.Strings(bs)
			parts = append(parts, strings.Join(bs, ";"))
		}
		for _, n := range []string{"min", "max"} {
			if m, ok := b.Aggregations()[n].(search.MetricCalculator); ok {
				parts = append(parts, fmt.Sprintf("%s=%g", n, m.Value()))
			}
		}
		rv["aggregations"] = strings.Join(parts, " ")
	}
	all := func(q bluge.Query) (string, error) {
		s, _, err := uidsOf(r, bluge.NewAllMatches(q))
		if err != nil {
			return "", err
		}
		us := strings.Split(s, ",")
		sort.Strings(us)
		return strings.Join(us, ","), nil
	}
	s, err = all(bluge.NewMatchPhraseQuery("quick fox").SetField("body"))
	put("phrase", s, err)
	s, err = all(bluge.NewBooleanQuery().AddMust(bluge.NewTermQuery("alpha").SetField("body")).AddMustNot(bluge.NewTermQuery("t1").SetField("tag")).AddShould(bluge.NewTermQuery("red").SetField("body")))
	put("boolean", s, err)
	s, err = all(bluge.NewBooleanQuery().AddMust(bluge.NewTermQuery("red").SetField("body"), bluge.NewTermQuery("blue").SetField("body")))
	put("conjunction", s, err)
	s, err = all(bluge.NewBooleanQuery().AddShould(bluge.NewTermQuery("fox").SetField("body"), bluge.NewTermQuery("dog").SetField("body"), bluge.NewTermQuery("t2").SetField("tag")))
	put("disjunction", s, err)
	s, err = all(bluge.NewNumericRangeInclusiveQuery(0, 10, true, true).SetField("num"))
	put("numeric-range", s, err)
	s, err = all(bluge.NewPrefixQuery("g").SetField("body"))
	put("prefix", s, err)
	// dictionary scan of the text field: the set of terms (counts are layout
	// dependent but must not change for one reader)
	di, err := r.DictionaryIterator("body", nil, nil, nil)
	if err != nil {
		put("dictionary", "", err)
	} else {
		var ts []string
		for {
			e, err := di.Next()
			if err != nil {
				put("dictionary", "", err)
				break
			}
			if e == nil {
				rv["dictionary"] = strings.Join(ts, ",")
				break
			}
			ts = append(ts, fmt.Sprintf("%s/%d", e.Term(), e.Count()))
		}
		_ = di.Close()
	}
	return rv
}

func diffExt(a, b map[string]string) string {
	var ks []string
	for k := range a {
		ks = append(ks, k)
	}
	sort.Strings(ks)
	for _, k := range ks {
		if a[k] != b[k] {
			return fmt.Sprintf("%s answered %q at first and %q later", k, a[k], b[k])
		}
	}
	if len(a) != len(b) {
		return "the set of answered reads changed"
	}
	return ""
}
