package sim

import (
	"fmt"
	"sort"
	"strings"
	"time"

	"github.com/blugelabs/bluge"
	"github.com/blugelabs/bluge/index"
)

// ---- documents -----------------------------------------------------------

var vocab = []string{"alpha", "beta", "gamma", "delta", "omega", "red", "green", "blue", "quick", "lazy", "fox", "dog"}
var tags = []string{"t0", "t1", "t2", "t3"}

type DocSpec struct {
	ID   string  `json:"id"`
	UID  string  `json:"uid"`
	Body string  `json:"body"`
	Num  float64 `json:"num"`
	Tag  string  `json:"tag"`
	Day  int     `json:"day"`
	Geo  bool    `json:"geo,omitempty"`
	Lon  float64 `json:"lon,omitempty"`
	Lat  float64 `json:"lat,omitempty"`
}

var epoch0 = time.Date(2020, 1, 1, 0, 0, 0, 0, time.UTC)

func (d *DocSpec) Bluge() *bluge.Document {
	doc := bluge.NewDocument(d.ID)
	doc.AddField(bluge.NewKeywordField("uid", d.UID).StoreValue().Sortable())
	doc.AddField(bluge.NewTextField("body", d.Body).StoreValue().SearchTermPositions().HighlightMatches())
	doc.AddField(bluge.NewNumericField("num", d.Num).StoreValue().Sortable().Aggregatable())
	doc.AddField(bluge.NewKeywordField("tag", d.Tag).StoreValue().Sortable().Aggregatable())
	doc.AddField(bluge.NewDateTimeField("day", epoch0.Add(time.Duration(d.Day)*24*time.Hour)).StoreValue().Sortable().Aggregatable())
	if d.Geo {
		doc.AddField(bluge.NewGeoPointField("loc", d.Lon, d.Lat).StoreValue())
	}
	doc.AddField(bluge.NewCompositeFieldIncluding("_all", []string{"body", "tag"}))
	return doc
}

// Stored returns the stored field values this document must read back with.
func (d *DocSpec) Stored() map[string]string {
	rv := map[string]string{}
	for _, f := range *d.Bluge() {
		if f.Store() {
			rv[f.Name()] = string(f.Value())
		}
	}
	return rv
}

func genDoc(t *Tape, id, uid string, geo bool) *DocSpec {
	n := 1 + t.Draw(5, "doc.words")
	ws := make([]string, n)
	for i := range ws {
		ws[i] = vocab[t.Draw(len(vocab), "doc.word")]
	}
	d := &DocSpec{ID: id, UID: uid, Body: strings.Join(ws, " "),
		Num: float64(t.Draw(26, "doc.num") - 5), Tag: tags[t.Draw(len(tags), "doc.tag")], Day: t.Draw(30, "doc.day")}
	if geo && t.Chance(1, 2, "doc.geo") {
		d.Geo = true
		d.Lon = float64(t.Draw(40, "doc.lon")-20) / 2
		d.Lat = float64(t.Draw(40, "doc.lat")-20) / 2
	}
	return d
}

// ---- batches -------------------------------------------------------------

const (
	OpInsert = 0
	OpUpdate = 1
	OpDelete = 2
)

type BatchOp struct {
	Kind int      `json:"k"`
	ID   string   `json:"id"`
	Doc  *DocSpec `json:"doc,omitempty"`
}

type BatchSpec struct {
	N      int       `json:"n"` // run-wide batch number
	Client int       `json:"client"`
	Ops    []BatchOp `json:"ops"`
	Via    string    `json:"via,omitempty"` // batch | insert | update | delete (single-op convenience calls)
}

func (b *BatchSpec) String() string {
	var sb strings.Builder
	fmt.Fprintf(&sb, "B%d[", b.N)
	for i, op := range b.Ops {
		if i > 0 {
			sb.WriteByte(' ')
		}
		switch op.Kind {
		case OpInsert:
			fmt.Fprintf(&sb, "ins(%s=%s)", op.ID, op.Doc.UID)
		case OpUpdate:
			fmt.Fprintf(&sb, "upd(%s=%s)", op.ID, op.Doc.UID)
		case OpDelete:
			fmt.Fprintf(&sb, "del(%s)", op.ID)
		}
	}
	sb.WriteByte(']')
	return sb.String()
}

func (b *BatchSpec) Index() *index.Batch {
	ib := bluge.NewBatch()
	b.IndexInto(ib)
	return ib
}

func (b *BatchSpec) IndexInto(ib *index.Batch) {
	for _, op := range b.Ops {
		switch op.Kind {
		case OpInsert:
			ib.Insert(op.Doc.Bluge())
		case OpUpdate:
			ib.Update(bluge.Identifier(op.ID), op.Doc.Bluge())
		case OpDelete:
			ib.Delete(bluge.Identifier(op.ID))
		}
	}
}

// ---- abstract index ------------------------------------------------------

// Model is the abstract index: the live documents in insertion order.
// apply(batch): remove every live document whose id the batch names (update
// and delete operations), then append the batch's documents.
type Model struct {
	Live []*DocSpec
	key  string
}

func (m *Model) Apply(b *BatchSpec) *Model {
	named := map[string]bool{}
	for _, op := range b.Ops {
		if op.Kind == OpUpdate || op.Kind == OpDelete {
			named[op.ID] = true
		}
	}
	nm := &Model{}
	for _, d := range m.Live {
		if !named[d.ID] {
			nm.Live = append(nm.Live, d)
		}
	}
	for _, op := range b.Ops {
		if op.Kind == OpInsert || op.Kind == OpUpdate {
			nm.Live = append(nm.Live, op.Doc)
		}
	}
	return nm
}

func (m *Model) UIDs() []string {
	rv := make([]string, len(m.Live))
	for i, d := range m.Live {
		rv[i] = d.UID
	}
	sort.Strings(rv)
	return rv
}

func (m *Model) Key() string {
	if m.key == "" {
		m.key = "{" + strings.Join(m.UIDs(), ",") + "}"
	}
	return m.key
}

func (m *Model) ByID() map[string][]string {
	rv := map[string][]string{}
	for _, d := range m.Live {
		rv[d.ID] = append(rv[d.ID], d.UID)
	}
	for _, v := range rv {
		sort.Strings(v)
	}
	return rv
}

func (m *Model) IDsHolding() []string {
	seen := map[string]bool{}
	var rv []string
	for _, d := range m.Live {
		if !seen[d.ID] {
			seen[d.ID] = true
			rv = append(rv, d.ID)
		}
	}
	sort.Strings(rv)
	return rv
}
