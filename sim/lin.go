package sim

import (
	"fmt"
	"time"

	"github.com/anishathalye/porcupine"
)

// checkLinearizable decides a recorded history with porcupine against the
// abstract index. Call/Ret stamps are 2*window (start of the window in which
// the call was issued) and 2*window+1 (end of the window in which it
// returned): windows are totally ordered, operations that overlap in a window
// count as concurrent, so the stamps never claim an order that did not hold.
func checkLinearizable(hist []HistOp) (verdict string, detail string) {
	model := porcupine.Model{
		Init: func() interface{} { return &Model{} },
		Step: func(state, input, output interface{}) (bool, interface{}) {
			m := state.(*Model)
			op := input.(HistOp)
			if op.Kind == "batch" {
				return true, m.Apply(op.Batch)
			}
			return m.Key() == op.Read, m
		},
		Equal: func(a, b interface{}) bool { return a.(*Model).Key() == b.(*Model).Key() },
		DescribeOperation: func(input, output interface{}) string {
			op := input.(HistOp)
			if op.Kind == "batch" {
				return op.Batch.String()
			}
			return "read " + op.Read
		},
	}
	ops := make([]porcupine.Operation, len(hist))
	for i, h := range hist {
		ops[i] = porcupine.Operation{ClientId: h.Client, Input: h, Call: int64(h.Call), Output: h, Return: int64(h.Ret)}
	}
	res := porcupine.CheckOperationsTimeout(model, ops, 30*time.Second)
	switch res {
	case porcupine.Ok:
		return "ok", ""
	case porcupine.Unknown:
		return "unknown", ""
	}
	var s string
	for _, h := range hist {
		if h.Kind == "batch" {
			s += fmt.Sprintf("client%d [%d,%d] %s; ", h.Client, h.Call, h.Ret, h.Batch)
		} else {
			s += fmt.Sprintf("client%d [%d,%d] read %s; ", h.Client, h.Call, h.Ret, h.Read)
		}
	}
	return "illegal", s
}

func linPostRun(r *Run, res *Result) {
	if len(r.hist) == 0 {
		return
	}
	// the final content is one more read, after everything returned
	last := 0
	for _, h := range r.hist {
		if h.Ret > last {
			last = h.Ret
		}
	}
	hist := append([]HistOp(nil), r.hist...)
	if r.finalModel != nil {
		hist = append(hist, HistOp{Client: 1000, Call: last + 1, Ret: last + 2, Kind: "read", Read: r.finalModel.Key()})
	}
	v, d := checkLinearizable(hist)
	if res.Extra == nil {
		res.Extra = map[string]any{}
	}
	res.Extra["lin_"+v] = 1.0
	res.Extra["lin_ops"] = float64(len(hist))
	if v == "illegal" {
		res.Violation = &Violation{Oracle: "linearizability", Msg: "the recorded history of Batch calls and Reader contents is not linearizable against the abstract index: " + d, Win: r.s.Win}
	}
}
